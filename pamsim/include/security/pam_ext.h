#ifndef SIM_PAM_EXT_H
#define SIM_PAM_EXT_H
#include <security/pam_modules.h>
void pam_vsyslog(const pam_handle_t *pamh, int priority, const char *fmt, va_list args);
void pam_syslog(const pam_handle_t *pamh, int priority, const char *fmt, ...);
int pam_prompt(pam_handle_t *pamh, int style, char **response, const char *fmt, ...);
#endif
