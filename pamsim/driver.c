/* Run class P (DESIGN.md 2.10): discrete-event simulator around pam/pam_whawty.c.
 *
 * pam_whawty.c is compiled unmodified with -include shim.h, which redirects socket /
 * connect / select / read / write / close (and strdup / free, to watch the password
 * buffers) into this file. libpam is replaced by the pam_* functions below. Everything
 * is single-threaded; a scripted agent and a fault-injecting system-call layer are driven
 * by one decision tape per run (search: xoshiro seeded from the run seed; replay: the
 * recorded values modulo n). Worker protocol: same environment variables and JSON result
 * lines as the Go harness binaries (harness/shared/core_test.go).
 *
 * Modes besides C20:
 *   VERIF_PAM_BATCH=1: read lines "R <hex reply>" / "E <hexuser> <hexpw>" from stdin and print
 *   the module's verdict for that agent reply / the request bytes the module writes
 *   (used by the C05 and C13 harnesses for their PAM clauses).
 */
#define SIM_DRIVER
#include "shim.h"
#include <security/pam_modules.h>
#include <security/pam_ext.h>
#include <setjmp.h>
#include <stdint.h>
#include <time.h>
#include <fcntl.h>

/* ------------------------------------------------------------------ tape */
typedef struct { char kind[24]; int n, v; } decision_t;
#define MAXDEC 20000
static decision_t rec[MAXDEC];
static int nrec;
static uint64_t xs[4];
static int replay_mode;
static int replay_vals[MAXDEC];
static int replay_len;
static int tape_pos;

static uint64_t splitmix(uint64_t *x) { uint64_t z = (*x += 0x9e3779b97f4a7c15ULL); z = (z ^ (z >> 30)) * 0xbf58476d1ce4e5b9ULL; z = (z ^ (z >> 27)) * 0x94d049bb133111ebULL; return z ^ (z >> 31); }
static uint64_t rotl(uint64_t x, int k) { return (x << k) | (x >> (64 - k)); }
static uint64_t xnext(void) { uint64_t r = rotl(xs[1] * 5, 7) * 9, t = xs[1] << 17; xs[2] ^= xs[0]; xs[3] ^= xs[1]; xs[1] ^= xs[2]; xs[0] ^= xs[3]; xs[2] ^= t; xs[3] = rotl(xs[3], 45); return r; }
static void seed_rng(uint64_t s) { for (int i = 0; i < 4; i++) xs[i] = splitmix(&s); }

static int stream_fd = -1; /* crash forensics: every decision is written here as it is taken */
static int choose(const char *kind, int n) {
  int v = 0;
  if (n <= 0) { fprintf(stderr, "choose n<=0 %s\n", kind); abort(); }
  if (replay_mode) { if (tape_pos < replay_len) { v = replay_vals[tape_pos] % n; if (v < 0) v = -v; } }
  else if (n > 1) v = (int)(xnext() % (uint64_t)n);
  tape_pos++;
  if (stream_fd >= 0) { if (write(stream_fd, &v, sizeof v) < 0) stream_fd = -1; }
  if (nrec < MAXDEC) { snprintf(rec[nrec].kind, sizeof rec[nrec].kind, "%s", kind); rec[nrec].n = n; rec[nrec].v = v; nrec++; }
  return v;
}
static int chance(const char *kind, int num, int den) { return choose(kind, den) >= den - num; }

/* ------------------------------------------------------------------ event log */
#define MAXLOG 600
static char *logl[MAXLOG];
static int nlog;
static uint64_t loghash;
static int keep_log;
static void logf_(const char *fmt, ...) {
  char buf[700]; va_list ap; va_start(ap, fmt); vsnprintf(buf, sizeof buf, fmt, ap); va_end(ap);
  for (char *p = buf; *p; p++) { loghash ^= (unsigned char)*p; loghash *= 0x100000001b3ULL; }
  loghash ^= 0xff; loghash *= 0x100000001b3ULL;
  if (keep_log && nlog < MAXLOG) logl[nlog++] = strdup(buf);
}

/* ------------------------------------------------------------------ run state */
static jmp_buf bail;
static char viol_sig[128], viol_msg[900];
static int have_viol;
static const char *known_csv;
static char known_hit_sig[8][128], known_hit_msg[8][300];
static int nknown_hit;

static int is_known(const char *sig) {
  if (!known_csv) return 0;
  const char *p = known_csv; size_t l = strlen(sig);
  while ((p = strstr(p, sig))) { if ((p == known_csv || p[-1] == ',') && (p[l] == 0 || p[l] == ',')) return 1; p += l; }
  return 0;
}
static void fail(const char *sig, const char *fmt, ...) {
  char msg[900]; va_list ap; va_start(ap, fmt); vsnprintf(msg, sizeof msg, fmt, ap); va_end(ap);
  if (is_known(sig)) {
    int seen = 0; for (int i = 0; i < nknown_hit; i++) if (!strcmp(known_hit_sig[i], sig)) seen = 1;
    if (!seen && nknown_hit < 8) { snprintf(known_hit_sig[nknown_hit], 128, "%s", sig); snprintf(known_hit_msg[nknown_hit], 300, "%s", msg); nknown_hit++; }
    logf_("KNOWN %s: %s", sig, msg);
    return;
  }
  if (!have_viol) { have_viol = 1; snprintf(viol_sig, sizeof viol_sig, "%s", sig); snprintf(viol_msg, sizeof viol_msg, "%s", msg); logf_("VIOLATION %s: %s", sig, msg); }
}

/* simulated world of one run */
static long long now_us;           /* simulated clock */
static long steps;                 /* simulated system calls */
#define STEP_BOUND 20000
static int in_module;

/* the scripted agent */
static unsigned char reply[70100]; static int reply_len;      /* bytes the agent will send */
typedef struct { int upto; long long at_us; } frag_t;          /* reply[..upto) available at time at_us (absolute after trigger) */
static frag_t frags[64]; static int nfrags;
static int reply_trigger;          /* 0: after the complete request, 1: right after connect, 2: never */
static long long trigger_time;     /* when the reply clock started (-1 = not yet) */
static int close_after;            /* agent closes after sending this many reply bytes (-1 = keeps open) */
static long long close_delay_us;
static int reset_on_read;          /* read returns ECONNRESET at this read index (-1 never) */
static int connect_errno, socket_errno;
static int peer_stops_reading_at;  /* after this many request bytes the agent no longer reads (write-select times out), -1 never */
static int peer_closed_early_at;   /* agent closes before/while the request is written: writes get EPIPE after this many bytes, -1 never */
static int delivered;              /* reply bytes consumed by the module */
static unsigned char reqbuf[2200]; static int req_len;
static int nreads, nwrites, nselects, eintr_budget, short_io;
static long long sig_period_us;    /* the host process is interrupted by a signal this often (0: never) */
static int batch_chunk;            /* batch mode: bytes accepted per write / send call (0 = all) */
static int stale_errno_mode;       /* leave errno = EINTR around successful calls */
static int sock_open, sock_closed, fd_out = 5;
static int timeout_s;
static int fault_free;

/* password buffers */
typedef struct { void *p; size_t len; int wiped_checked; } pwbuf_t;
static pwbuf_t pwbufs[8]; static int npw;
static const char *cur_password;
static int unwiped;

/* PAM environment */
static const char *pam_user; static int get_user_ret;
static const char *stack_authtok; static int get_item_ret, set_item_ret;
static int conv_mode; /* 0 returns password, 1 PAM_CONV_ERR, 2 PAM_CONV_AGAIN, 3 success with NULL */
static int set_item_called; static char *set_item_value;

static void step(const char *what) {
  if (++steps > STEP_BOUND && in_module) {
    fail("hang/endless-loop", "more than %d simulated system calls without returning (last: %s; reads=%d writes=%d selects=%d, simulated time %lld ms): the module loops", STEP_BOUND, what, nreads, nwrites, nselects, now_us / 1000);
    longjmp(bail, 1);
  }
}

static int request_complete(void) {
  /* four length-prefixed parts */
  int p = 0;
  for (int i = 0; i < 4; i++) { if (req_len - p < 2) return 0; int n = reqbuf[p] << 8 | reqbuf[p + 1]; p += 2; if (req_len - p < n) return 0; p += n; }
  return 1;
}
static void maybe_trigger(void) {
  if (trigger_time >= 0) return;
  if (reply_trigger == 1 || (reply_trigger == 0 && request_complete())) trigger_time = now_us;
}
/* reply bytes available to read at time t; *eof set when the agent has closed and everything
 * it sent was read; *next_event = time of the next arrival/close after t (-1 none) */
static int avail_at(long long t, int *eof, long long *next_event) {
  *eof = 0; *next_event = -1;
  if (trigger_time < 0) { return 0; }
  int upto = 0; long long nxt = -1;
  for (int i = 0; i < nfrags; i++) {
    long long at = trigger_time + frags[i].at_us;
    if (at <= t) { if (frags[i].upto > upto) upto = frags[i].upto; }
    else if (nxt < 0 || at < nxt) nxt = at;
  }
  if (close_after >= 0) {
    if (upto > close_after) upto = close_after;
    long long base = trigger_time;
    for (int i = 0; i < nfrags; i++) { base = trigger_time + frags[i].at_us; if (frags[i].upto >= close_after) break; }
    if (close_after == 0 || nfrags == 0) base = trigger_time;
    long long ct = base + close_delay_us;
    if (ct <= t) { if (delivered >= upto) *eof = 1; }
    else if (nxt < 0 || ct < nxt) nxt = ct;
  }
  *next_event = nxt;
  return upto - delivered > 0 ? upto - delivered : 0;
}

int sim_socket(int domain, int type, int protocol) {
  step("socket"); (void)domain; (void)type; (void)protocol;
  if (socket_errno) { errno = socket_errno; logf_("socket() = -1 errno=%d", errno); return -1; }
  sock_open++; logf_("socket() = %d", fd_out);
  return fd_out;
}
static long long connect_delay_us; /* an agent too busy to accept: connect() itself takes this long */
int sim_connect(int fd, const struct sockaddr *addr, socklen_t len) {
  step("connect"); (void)fd; (void)addr; (void)len;
  now_us += connect_delay_us;
  if (connect_errno) { errno = connect_errno; logf_("connect() = -1 errno=%d", errno); return -1; }
  logf_("connect() = 0%s", connect_delay_us ? " (after a long wait in the listen queue)" : ""); maybe_trigger();
  return 0;
}
/* the module's view of the wall clock is the simulated clock */
time_t sim_time(time_t *t) { time_t v = (time_t)(1700000000LL + now_us / 1000000); if (t) *t = v; return v; }
int sim_close(int fd) { step("close"); (void)fd; sock_closed++; logf_("close()"); return 0; }

int sim_select(int nfds, fd_set *r, fd_set *w, fd_set *e, struct timeval *tv) {
  step("select"); nselects++; (void)nfds; (void)e;
  if (tv && (tv->tv_sec < 0 || tv->tv_usec < 0 || tv->tv_usec >= 1000000)) { errno = EINVAL; logf_("select() = -1 EINVAL (timeout %ld s %ld us)", (long)tv->tv_sec, (long)tv->tv_usec); return -1; }
  long long to = tv ? (long long)tv->tv_sec * 1000000 + tv->tv_usec : -1;
  if (eintr_budget > 0 && chance("select-eintr", 1, 12)) { eintr_budget--; errno = EINTR; now_us += 1000; logf_("select() = -1 EINTR"); return -1; }
  /* a host process with an interval timer (or busy children): a select that would block beyond
     the next signal returns EINTR at that moment, every time */
  #define SIG_INTERRUPTS(until) (sig_period_us > 0 && (now_us / sig_period_us + 1) * sig_period_us < (until))
  #define SIG_DELIVER() do { now_us = (now_us / sig_period_us + 1) * sig_period_us; errno = EINTR; logf_("select() = -1 EINTR (periodic signal at %lld ms)", now_us / 1000); return -1; } while (0)
  if (w) {
    if (peer_stops_reading_at >= 0 && req_len >= peer_stops_reading_at && to >= 0 && SIG_INTERRUPTS(now_us + to)) SIG_DELIVER();
    if (peer_stops_reading_at >= 0 && req_len >= peer_stops_reading_at) { now_us += to; FD_ZERO(w); logf_("select(write) times out after %lld ms (agent not reading)", to / 1000); return 0; }
    logf_("select(write) = 1");
    return 1;
  }
  if (r) {
    maybe_trigger();
    int eof; long long nxt; int av = avail_at(now_us, &eof, &nxt);
    if (reset_on_read >= 0 && nreads >= reset_on_read) { logf_("select(read) = 1 (reset pending)"); return 1; }
    if (av > 0 || eof) { logf_("select(read) = 1 (avail=%d eof=%d)", av, eof); return 1; }
    if (nxt >= 0 && (to < 0 || nxt - now_us <= to)) { if (SIG_INTERRUPTS(nxt)) SIG_DELIVER(); }
    else if (to >= 0 && SIG_INTERRUPTS(now_us + to)) SIG_DELIVER();
    if (nxt >= 0 && (to < 0 || nxt - now_us <= to)) { logf_("select(read) waits %lld ms", (nxt - now_us) / 1000); now_us = nxt; return 1; }
    now_us += to; FD_ZERO(r); logf_("select(read) times out after %lld ms", to / 1000);
    return 0;
  }
  return 0;
}

ssize_t sim_read(int fd, void *buf, size_t n) {
  step("read"); (void)fd;
  int idx = nreads++;
  if (reset_on_read >= 0 && idx >= reset_on_read) { errno = ECONNRESET; logf_("read() = -1 ECONNRESET"); return -1; }
  if (eintr_budget > 0 && chance("read-eintr", 1, 14)) { eintr_budget--; errno = EINTR; logf_("read() = -1 EINTR"); return -1; }
  int eof; long long nxt; int av = avail_at(now_us, &eof, &nxt);
  if (av == 0) {
    if (eof) { if (stale_errno_mode) errno = EINTR; logf_("read() = 0 (agent closed)%s", stale_errno_mode ? " with stale errno=EINTR" : ""); return 0; }
    errno = EAGAIN; logf_("read() = -1 EAGAIN"); return -1;
  }
  size_t k = (size_t)av < n ? (size_t)av : n;
  if (short_io && k > 1 && chance("short-read", 1, 3)) k = 1 + choose("short-read-n", (int)k - 1);
  memcpy(buf, reply + delivered, k); delivered += k;
  if (stale_errno_mode) errno = EINTR;
  logf_("read() = %zu (delivered %d/%d)", k, delivered, reply_len);
  return (ssize_t)k;
}

ssize_t sim_write(int fd, const void *buf, size_t n) {
  step("write"); (void)fd; nwrites++;
  if (peer_closed_early_at >= 0 && req_len >= peer_closed_early_at) { errno = EPIPE; logf_("write() = -1 EPIPE"); return -1; }
  if (eintr_budget > 0 && chance("write-eintr", 1, 14)) { eintr_budget--; errno = EINTR; logf_("write() = -1 EINTR"); return -1; }
  size_t k = n;
  if (short_io && k > 1 && chance("short-write", 1, 3)) k = 1 + choose("short-write-n", (int)k - 1);
  if (batch_chunk > 0 && k > (size_t)batch_chunk) k = batch_chunk; /* batch mode: the socket takes this much per call */
  if (peer_closed_early_at >= 0 && req_len + (int)k > peer_closed_early_at) k = peer_closed_early_at - req_len;
  if (req_len + k < sizeof reqbuf) { memcpy(reqbuf + req_len, buf, k); }
  req_len += k;
  if (stale_errno_mode) errno = EINTR;
  logf_("write(%zu) = %zu (request %d bytes so far)", n, k, req_len);
  maybe_trigger();
  return (ssize_t)k;
}

/* recv / send: what a changed module may use instead of read / write. MSG_WAITALL blocks until
   the buffer is full, the peer closes or an error occurs - select()'s timeout does not bound it. */
ssize_t sim_recv(int fd, void *buf, size_t n, int flags) {
  if (!(flags & MSG_WAITALL)) return sim_read(fd, buf, n);
  size_t got = 0;
  while (got < n) {
    step("recv"); nreads++;
    if (reset_on_read >= 0 && nreads > reset_on_read) { errno = ECONNRESET; logf_("recv(WAITALL) = -1 ECONNRESET"); return got ? (ssize_t)got : -1; }
    int eof; long long nxt; int av = avail_at(now_us, &eof, &nxt);
    if (av > 0) { size_t k = (size_t)av < n - got ? (size_t)av : n - got; memcpy((char *)buf + got, reply + delivered, k); delivered += k; got += k; continue; }
    if (eof) break;
    if (nxt >= 0) { now_us = nxt; continue; }
    /* nothing more will ever arrive and the agent keeps the connection open: the call blocks for good */
    now_us += 24LL * 3600 * 1000000; logf_("recv(WAITALL) blocks for ever (%zu of %zu bytes, agent silent)", got, n);
    errno = EINTR; return -1;
  }
  logf_("recv(WAITALL) = %zu", got);
  return (ssize_t)got;
}
ssize_t sim_send(int fd, const void *buf, size_t n, int flags) { (void)flags; return sim_write(fd, buf, n); }

static void track(void *p, size_t len) { if (npw < 8) { pwbufs[npw].p = p; pwbufs[npw].len = len; pwbufs[npw].wiped_checked = 0; npw++; } }
static long module_allocs, module_frees;
char *sim_strdup(const char *s) {
  char *d = strdup(s);
  if (d) module_allocs++;
  if (d && cur_password && s == cur_password) track(d, strlen(s));
  return d;
}
void sim_free(void *p) {
  if (p) module_frees++;
  for (int i = 0; i < npw; i++) if (pwbufs[i].p == p && !pwbufs[i].wiped_checked) {
    pwbufs[i].wiped_checked = 1;
    for (size_t k = 0; k < pwbufs[i].len; k++) if (((char *)p)[k]) { unwiped = 1; break; }
  }
  free(p);
}

/* ------------------------------------------------------------------ libpam */
struct pam_handle { int dummy; };
int pam_get_user(pam_handle_t *pamh, const char **user, const char *prompt) { (void)pamh; (void)prompt; if (get_user_ret != PAM_SUCCESS) return get_user_ret; *user = pam_user; return PAM_SUCCESS; }
int pam_get_item(const pam_handle_t *pamh, int item_type, const void **item) { (void)pamh; if (get_item_ret != PAM_SUCCESS) return get_item_ret; if (item_type == PAM_AUTHTOK) *item = stack_authtok; else *item = NULL; return PAM_SUCCESS; }
int pam_set_item(pam_handle_t *pamh, int item_type, const void *item) { (void)pamh; (void)item_type; set_item_called++; free(set_item_value); set_item_value = item ? strdup(item) : NULL; return set_item_ret; }
const char *pam_strerror(pam_handle_t *pamh, int errnum) { (void)pamh; (void)errnum; return "pam error"; }
/* like libpam: the format is really expanded (a format-string bug in the module then reads
   arguments that are not there, which the sanitizers or the %n store make visible) */
void pam_vsyslog(const pam_handle_t *pamh, int priority, const char *fmt, va_list args) { (void)pamh; (void)priority; char b[2048]; vsnprintf(b, sizeof b, fmt, args); }
void pam_syslog(const pam_handle_t *pamh, int priority, const char *fmt, ...) { va_list ap; va_start(ap, fmt); pam_vsyslog(pamh, priority, fmt, ap); va_end(ap); }
int pam_prompt(pam_handle_t *pamh, int style, char **response, const char *fmt, ...) {
  (void)pamh; (void)style; (void)fmt;
  switch (conv_mode) {
  case 1: return PAM_CONV_ERR;
  case 2: return PAM_CONV_AGAIN;
  case 3: *response = NULL; return PAM_SUCCESS;
  }
  *response = strdup(cur_password); track(*response, strlen(cur_password)); module_allocs++;
  return PAM_SUCCESS;
}

/* ------------------------------------------------------------------ one run */
static char ubuf[5000], pbuf[5000];
static const char *mkstr(char *dst, const char *prefix, int len) {
  int pl = (int)strlen(prefix); if (len < pl) { memcpy(dst, prefix, len); dst[len] = 0; return dst; }
  memcpy(dst, prefix, pl); for (int i = pl; i < len; i++) dst[i] = "abcdefghijklmnopqrstuvwxyz0123456789"[(i * 7 + len) % 36]; dst[len] = 0; return dst;
}
static const int lens[] = {5, 0, 1, 255, 256, 257, 300, 4096};
static char jsonbuf[6 << 20];

static void put_part(unsigned char *b, int *p, const char *s, int n) { b[(*p)++] = n >> 8; b[(*p)++] = n & 255; memcpy(b + *p, s, n); *p += n; }

static void run_call(int callno);
static long session_steps; static long long session_us; static int session_reqlen;

/* One run = one session: 1..3 authentications in the same process image (the module's static
 * state, if it has any, carries over between them -- as in a long-running PAM application). */
static void run_once(uint64_t seed) {
  have_viol = 0; nrec = 0; tape_pos = 0; nlog = 0; loghash = 0xcbf29ce484222325ULL; nknown_hit = 0;
  seed_rng(seed);
  session_steps = 0; session_us = 0; session_reqlen = 0;
  logf_("run prop=C20 seed=%llu", (unsigned long long)seed);
  int ncalls = 1 + (choose("session-calls", 4) == 3 ? 1 + choose("session-more", 2) : 0);
  for (int i = 0; i < ncalls && !have_viol; i++) { run_call(i); session_steps += steps; session_us += now_us; if (req_len > session_reqlen) session_reqlen = req_len; }
  steps = session_steps; now_us = session_us; req_len = session_reqlen;
}

static void run_call(int callno) {
  now_us = 0; steps = 0; delivered = 0; req_len = 0; nreads = nwrites = nselects = 0; npw = 0; unwiped = 0; sock_open = sock_closed = 0;
  trigger_time = -1; set_item_called = 0; free(set_item_value); set_item_value = NULL; module_allocs = module_frees = 0;
  logf_("call %d", callno);

  /* inputs */
  int ulen = lens[choose("user-len", 8)], plen = lens[choose("pw-len", 8)];
  /* a fifth of the calls carry printf conversions in every string that may reach a log line */
  int hostile = choose("printf-conversions-in-data", 5) == 0;
  pam_user = mkstr(ubuf, hostile ? "U%s%s%s%n%x" : "USER", ulen); cur_password = mkstr(pbuf, "PW", plen);
  const char *argv[8]; int argc = 0; char tbuf[32]; timeout_s = 3;
  int first_pass = choose("first-pass", 3); /* 0 none 1 try 2 use */
  if (first_pass == 1) argv[argc++] = "try_first_pass";
  if (first_pass == 2) argv[argc++] = "use_first_pass";
  if (choose("opt-debug", 2)) argv[argc++] = "debug";
  int not_set = choose("opt-not-set-pass", 2); if (not_set) argv[argc++] = "not_set_pass";
  switch (choose("opt-sock", 4)) { case 1: argv[argc++] = "sock=/run/x.sock"; break; case 2: argv[argc++] = "sock="; break; case 3: argv[argc++] = "sock=/a"; argv[argc++] = "sock=/b"; break; }
  switch (choose("opt-timeout", 6)) { case 1: timeout_s = 1; argv[argc++] = "timeout=1"; break; case 2: timeout_s = 5; argv[argc++] = "timeout=5"; break; case 3: argv[argc++] = "timeout=0"; break; case 4: argv[argc++] = "timeout=-4"; break; case 5: argv[argc++] = "timeout=abc"; break; }
  if (choose("opt-unknown", 3) == 0) argv[argc++] = hostile ? "null%s%s%n%sok" : "nullok";
  (void)tbuf;
  int flags = choose("flag-silent", 2) ? PAM_SILENT : 0;
  get_user_ret = chance("get-user-fails", 1, 15) ? PAM_USER_UNKNOWN : PAM_SUCCESS;
  get_item_ret = chance("get-item-fails", 1, 15) ? PAM_SYSTEM_ERR : PAM_SUCCESS;
  set_item_ret = chance("set-item-fails", 1, 15) ? PAM_BUF_ERR : PAM_SUCCESS;
  stack_authtok = choose("authtok-on-stack", 2) ? cur_password : NULL;
  conv_mode = chance("conv-misbehaves", 1, 6) ? 1 + choose("conv-mode", 3) : 0;

  /* the agent's behaviour */
  fault_free = choose("fault-class", 3) == 0;
  socket_errno = connect_errno = 0;
  if (!fault_free && chance("socket-fails", 1, 20)) socket_errno = EMFILE;
  connect_delay_us = 0;
  if (!fault_free && chance("connect-slow", 1, 8)) connect_delay_us = (long long)(1 + choose("connect-wait-s", 12)) * 1000000;
  if (!fault_free && chance("connect-fails", 1, 8)) connect_errno = (int[]){ECONNREFUSED, ENOENT, EACCES, EAGAIN}[choose("connect-errno", 4)];
  /* reply text */
  static const char *texts[] = {"OK", "OK successfully authenticated", "NO", "NO wrong credentials", "", "O", "OKAY", "ok", "NOK", "KO", " OK", "\0OK", "NO OK", "XX"};
  static const char *htexts[] = {"OK %s%s%n", "OK", "NO %s%s%s%s%n%n", "NO username '%s%s%n' is invalid"};
  int ti = choose("reply-text", fault_free ? 4 : 14);
  const char *chosen = (hostile && ti < 4) ? htexts[ti] : texts[ti];
  char text[70000]; int tlen = (int)strlen(chosen); memcpy(text, chosen, tlen); if (ti == 11) { text[0] = 0; text[1] = 'O'; text[2] = 'K'; tlen = 3; }
  int pad = (int[]){0, 0, 0, 230, 253, 254, 300, 65000}[choose("reply-pad", fault_free ? 3 : 8)];
  if (pad && tlen >= 2) { if (tlen == 2) text[tlen++] = ' '; for (int i = 0; i < pad && tlen < 69000; i++) text[tlen++] = 'm'; }
  /* an over-long negative reply whose text says "OK" again where a reader working in 256-byte
     chunks would start its next chunk */
  if (tlen > 262 && choose("ok-at-chunk-boundary", 2)) { for (int off = 256; off + 3 < tlen; off += 256) memcpy(text + off, "OK ", 3); }
  int declared = tlen;
  if (!fault_free) switch (choose("reply-len-field", 6)) { case 1: declared = tlen + 1 + choose("len-over", 300); break; case 2: declared = tlen > 0 ? choose("len-under", tlen) : 0; break; case 3: declared = 65535; break; case 4: declared = 0; break; }
  reply_len = 0; reply[reply_len++] = declared >> 8; reply[reply_len++] = declared & 255; memcpy(reply + reply_len, text, tlen); reply_len += tlen;
  if (!fault_free && chance("reply-cut", 1, 4)) reply_len = choose("cut-at", reply_len + 1);
  /* fragmentation and timing */
  nfrags = 0; long long t = 0; int pos = 0;
  long long to_us = (long long)timeout_s * 1000000;
  while (pos < reply_len && nfrags < 60) {
    int rest = reply_len - pos; int k = rest;
    if (choose("frag", 3) == 0 && rest > 1) k = 1 + choose("frag-n", rest < 8 ? rest : 8);
    if (nfrags == 59) k = rest;
    long long d = 0;
    switch (choose("frag-delay", fault_free ? 3 : 6)) { case 1: d = 1000; break; case 2: d = to_us - 1000; break; case 3: d = to_us; break; case 4: d = to_us + 1000; break; case 5: d = 10 * to_us; break; }
    t += d; pos += k; frags[nfrags].upto = pos; frags[nfrags].at_us = t; nfrags++;
  }
  reply_trigger = fault_free ? 0 : (int[]){0, 0, 0, 1, 2}[choose("reply-trigger", 5)];
  close_after = -1; close_delay_us = 0;
  if (fault_free || chance("agent-closes", 2, 3)) { close_after = reply_len; close_delay_us = 0; }
  if (!fault_free && chance("early-close", 1, 4)) { close_after = choose("close-after", reply_len + 1); close_delay_us = (long long[]){0, 1000, to_us + 1000}[choose("close-delay", 3)]; }
  reset_on_read = (!fault_free && chance("reset", 1, 10)) ? choose("reset-at", 4) : -1;
  peer_stops_reading_at = (!fault_free && chance("agent-stops-reading", 1, 12)) ? choose("stops-at", 40) : -1;
  peer_closed_early_at = (!fault_free && chance("epipe", 1, 12)) ? choose("epipe-at", 40) : -1;
  eintr_budget = fault_free ? 0 : choose("eintr-budget", 4);
  short_io = fault_free ? 0 : choose("short-io", 2);
  sig_period_us = (!fault_free && chance("periodic-signal", 1, 8)) ? (long long[]){100000, 500000, 1500000, 2900000}[choose("signal-period", 4)] : 0;
  stale_errno_mode = choose("stale-errno", 3) == 1;
  int ambient = (int[]){0, EINTR, EAGAIN, ENOENT}[choose("ambient-errno", 4)];

  logf_("user=%dB password=%dB opts=%d first_pass=%d stack=%s conv=%d timeout=%ds | agent: text=%d pad=%d declared=%d reply_len=%d frags=%d trigger=%d close_after=%d reset=%d stops_reading=%d epipe=%d eintr=%d short=%d stale_errno=%d ambient_errno=%d connect_errno=%d",
        ulen, plen, argc, first_pass, stack_authtok ? "yes" : "no", conv_mode, timeout_s, ti, pad, declared, reply_len, nfrags, reply_trigger, close_after, reset_on_read, peer_stops_reading_at, peer_closed_early_at, eintr_budget, short_io, stale_errno_mode, ambient, connect_errno);

  struct pam_handle h; int ret = -12345;
  errno = ambient;
  in_module = 1;
  if (!setjmp(bail)) ret = pam_sm_authenticate(&h, flags, argc, argv);
  in_module = 0;
  logf_("pam_sm_authenticate = %d after %ld system calls, %lld ms simulated", ret, steps, now_us / 1000);
  if (have_viol) return;

  /* ---- oracle ---- */
  int exp_u = ulen > 256 ? 256 : ulen, exp_p = plen > 256 ? 256 : plen;
  unsigned char want[600]; int wl = 0;
  put_part(want, &wl, pam_user, exp_u); put_part(want, &wl, cur_password, exp_p); put_part(want, &wl, "", 0); put_part(want, &wl, "", 0);
  int request_ok = req_len == wl && !memcmp(reqbuf, want, wl);
  int got_ok = delivered >= 4 && reply[2] == 'O' && reply[3] == 'K';
  if (ret == PAM_SUCCESS) {
    if (!got_ok) fail("success/without-ok", "PAM_SUCCESS although the module read %d reply bytes (%02x %02x %02x %02x...): the reply does not begin with OK", delivered, reply[0], reply[1], reply[2], reply[3]);
    if (!request_ok) fail("success/request-malformed", "PAM_SUCCESS but the request written (%d bytes) is not the encoding of (user[:256], password[:256], \"\", \"\") (%d bytes)", req_len, wl);
  }
  if (req_len > 0) {
    /* whatever was written must be a prefix of the well-formed request */
    if (req_len > wl || memcmp(reqbuf, want, req_len)) fail("request/not-well-formed", "the %d request bytes written are not a prefix of the reference encoding (%d bytes) for user=%dB password=%dB", req_len, wl, ulen, plen);
  }
  if (fault_free && conv_mode == 0 && get_user_ret == PAM_SUCCESS && get_item_ret == PAM_SUCCESS && set_item_ret == PAM_SUCCESS && !(first_pass == 2 && !stack_authtok)) {
    int expect_ok = ti < 2;
    /* delays below the timeout only (fault-free class): the verdict must be the agent's */
    if (expect_ok && ret != PAM_SUCCESS) fail("fault-free/ok-refused", "the agent answered OK in time on a healthy connection but the module returned %d", ret);
    if (!expect_ok && ret != PAM_AUTH_ERR) fail("fault-free/no-not-auth-err", "the agent answered NO but the module returned %d", ret);
    if (!request_ok) fail("request/not-well-formed", "fault-free run: request written is %d bytes, reference encoding %d bytes", req_len, wl);
  }
  if (unwiped) fail("password/not-wiped", "a password buffer was freed without being overwritten");
  for (int i = 0; i < npw; i++) if (!pwbufs[i].wiped_checked && ret != -12345) fail("password/leaked-buffer", "a password copy was never freed");
  if (module_allocs != module_frees) fail("memory/leak", "the module allocated %ld strings (strdup / conversation reply) and freed %ld", module_allocs, module_frees);
  if (sock_open != sock_closed) fail("socket/leaked", "%d sockets opened, %d closed", sock_open, sock_closed);
  /* bounded time: every select either times out (and the module gives up) or makes progress */
  long long bound = (long long)timeout_s * 1000000 * (nfrags + 8 + 4 /*eintr*/ ) + 1000000 + connect_delay_us;
  if (now_us > bound) fail("time/unbounded", "simulated time %lld ms exceeds the bound %lld ms implied by timeout=%ds", now_us / 1000, bound / 1000, timeout_s);
}

/* ------------------------------------------------------------------ isolation / minimiser / protocol
 *
 * The module may keep state between authentications (a static buffer, say). To make every run
 * a pure function of its tape, each run executes in a forked child of this process, which
 * itself never calls the module: every child starts from the pristine process image, exactly
 * like the fresh process that later replays the violation. */
#include <sys/wait.h>

typedef struct {
  int viol; char sig[128]; char msg[900]; uint64_t loghash; int nlog; int tape_pos;
  long steps; long long sim_us; int reqlen; int nrec;
  int fault_free, reset, epipe, early_close, stale, short_io, connect_err, eintr;
  int nknown; char known_sig[4][128]; char known_msg[4][300];
  int crashed; char crash_text[600];
} result_t;

static int rec_vals[MAXDEC];

static void jesc(char **p, const char *s) { for (; *s; s++) { unsigned char c = *s; if (c == '"' || c == '\\') { *(*p)++ = '\\'; *(*p)++ = c; } else if (c < 32 || c > 126) { *p += sprintf(*p, "\\u%04x", c); } else *(*p)++ = c; } }

/* runs one session in a child; vals==NULL: search mode from seed. When detail_out != NULL the
 * child also writes the JSON fragment ("decisions":[...],"log":[...]) to it. */
static void eval_in_fork(uint64_t seed, const int *vals, int n, result_t *res, int want_vals, char *detail_out, size_t detail_cap) {
  int pfd[2]; if (pipe(pfd)) { perror("pipe"); exit(2); }
  fflush(NULL);
  pid_t pid = fork();
  if (pid < 0) { perror("fork"); exit(2); }
  if (pid == 0) {
    close(pfd[0]);
    int devnull = open("/dev/null", O_WRONLY); (void)devnull;
    dup2(pfd[1], 2); /* sanitizer reports go to the pipe after the result record is missing */
    keep_log = detail_out != NULL;
    if (vals) { replay_mode = 1; replay_len = n; memcpy(replay_vals, vals, sizeof(int) * n); } else replay_mode = 0;
    run_once(seed);
    static result_t r; memset(&r, 0, sizeof r);
    r.viol = have_viol; snprintf(r.sig, sizeof r.sig, "%s", viol_sig); snprintf(r.msg, sizeof r.msg, "%s", viol_msg);
    r.loghash = loghash; r.nlog = nlog; r.tape_pos = tape_pos; r.steps = steps; r.sim_us = now_us; r.reqlen = req_len; r.nrec = nrec;
    r.fault_free = fault_free; r.reset = reset_on_read >= 0; r.epipe = peer_closed_early_at >= 0; r.early_close = close_after >= 0 && close_after < reply_len; r.stale = stale_errno_mode; r.short_io = short_io; r.connect_err = connect_errno != 0; r.eintr = eintr_budget + (sig_period_us > 0);
    r.nknown = nknown_hit > 4 ? 4 : nknown_hit; for (int i = 0; i < r.nknown; i++) { strcpy(r.known_sig[i], known_hit_sig[i]); snprintf(r.known_msg[i], 300, "%s", known_hit_msg[i]); }
    char magic[8] = "RESULT1"; if (write(pfd[1], magic, 8) != 8) _exit(9);
    if (write(pfd[1], &r, sizeof r) != (ssize_t)sizeof r) _exit(9);
    if (want_vals) { for (int i = 0; i < nrec; i++) rec_vals[i] = rec[i].v; if (write(pfd[1], rec_vals, sizeof(int) * nrec) < 0) _exit(9); }
    if (detail_out) {
      char *buf = malloc(4 << 20), *q = buf;
      q += sprintf(q, "\"decisions\":["); for (int i = 0; i < nrec; i++) q += sprintf(q, "%s{\"k\":\"%s\",\"n\":%d,\"v\":%d}", i ? "," : "", rec[i].kind, rec[i].n, rec[i].v);
      q += sprintf(q, "],\"log\":["); for (int i = 0; i < nlog; i++) { if (i) *q++ = ','; *q++ = '"'; jesc(&q, logl[i]); *q++ = '"'; } q += sprintf(q, "]");
      size_t len = q - buf, off = 0; while (off < len) { ssize_t w = write(pfd[1], buf + off, len - off); if (w <= 0) break; off += w; }
    }
    _exit(0);
  }
  close(pfd[1]);
  static char inbuf[5 << 20]; size_t got = 0; ssize_t k;
  while ((k = read(pfd[0], inbuf + got, sizeof inbuf - 1 - got)) > 0) got += k;
  close(pfd[0]); inbuf[got] = 0;
  int st = 0; waitpid(pid, &st, 0);
  memset(res, 0, sizeof *res);
  if (got >= 8 + sizeof(result_t) && !memcmp(inbuf, "RESULT1", 8)) {
    memcpy(res, inbuf + 8, sizeof *res);
    size_t off = 8 + sizeof(result_t);
    if (want_vals) { memcpy(rec_vals, inbuf + off, sizeof(int) * res->nrec); off += sizeof(int) * res->nrec; }
    if (detail_out) { size_t l = got - off; if (l >= detail_cap) l = detail_cap - 1; memcpy(detail_out, inbuf + off, l); detail_out[l] = 0; }
    return;
  }
  /* the child died inside the module: a sanitizer report or a signal */
  res->crashed = 1; res->viol = 1;
  const char *kind = strstr(inbuf, "AddressSanitizer") ? "sanitizer/address" : strstr(inbuf, "runtime error:") ? "sanitizer/undefined-behaviour" : "crash/signal";
  snprintf(res->sig, sizeof res->sig, "%s", kind);
  char *sum = strstr(inbuf, "SUMMARY:"); if (!sum) sum = strstr(inbuf, "ERROR:"); if (!sum) sum = inbuf;
  snprintf(res->crash_text, sizeof res->crash_text, "%.500s", sum); for (char *c = res->crash_text; *c; c++) if (*c == '\n') { *c = 0; break; }
  /* drop addresses so that the text is stable across processes */
  snprintf(res->msg, sizeof res->msg, "the module died inside pam_sm_authenticate (exit status %d): %s", st, res->crash_text);
  for (char *c = res->msg; *c; c++) if (c[0] == '0' && c[1] == 'x') { char *e = c + 2; while ((*e >= '0' && *e <= '9') || (*e >= 'a' && *e <= 'f')) e++; memmove(c + 2, e, strlen(e) + 1); }
  if (detail_out) snprintf(detail_out, detail_cap, "\"decisions\":[],\"log\":[\"(the child process died: %s)\"]", kind);
  res->loghash = 0xdead;
}

/* re-runs seed in search mode in a child that streams every decision: the tape up to a crash */
static int recover_tape(uint64_t seed, int *vals) {
  int pfd[2]; if (pipe(pfd)) return 0;
  fflush(NULL);
  pid_t pid = fork();
  if (pid == 0) {
    close(pfd[0]); int dn = open("/dev/null", O_WRONLY); dup2(dn, 2); dup2(dn, 1);
    stream_fd = pfd[1]; keep_log = 0; replay_mode = 0;
    run_once(seed);
    _exit(0);
  }
  close(pfd[1]);
  int n = 0; ssize_t k; int v;
  while (n < MAXDEC && (k = read(pfd[0], &v, sizeof v)) == (ssize_t)sizeof v) vals[n++] = v;
  close(pfd[0]); int st; waitpid(pid, &st, 0);
  return n;
}

static int still_fails(uint64_t seed, const int *v, int n, const char *sig) { result_t r; eval_in_fork(seed, v, n, &r, 0, NULL, 0); return r.viol && !strcmp(r.sig, sig); }

static int minimise(uint64_t seed, int *cur, int n, const char *sig) {
  static int cand[MAXDEC];
  int budget = 300;
  while (n > 0 && budget-- > 0) { int h = n / 2; if (still_fails(seed, cur, h, sig)) n = h; else break; }
  for (int chunk = n / 2; chunk >= 1 && budget > 0; chunk /= 2)
    for (int s = 0; s < n && budget > 0; s += chunk) {
      int e = s + chunk > n ? n : s + chunk, allz = 1;
      for (int i = s; i < e; i++) if (cur[i]) allz = 0;
      if (allz) continue;
      memcpy(cand, cur, sizeof(int) * n); for (int i = s; i < e; i++) cand[i] = 0;
      budget--; if (still_fails(seed, cand, n, sig)) memcpy(cur, cand, sizeof(int) * n);
    }
  for (int i = 0; i < n && budget > 0; i++) if (cur[i] > 1) { memcpy(cand, cur, sizeof(int) * n); cand[i] = 1; budget--; if (still_fails(seed, cand, n, sig)) cur[i] = 1; }
  while (n > 0 && cur[n - 1] == 0 && budget-- > 0) { if (still_fails(seed, cur, n - 1, sig)) n--; else break; }
  return n;
}

static uint64_t hash_seed(uint64_t base, int idx) { uint64_t x = base * 0x9e3779b97f4a7c15ULL + (uint64_t)idx * 0xbf58476d1ce4e5b9ULL + 0xC20; splitmix(&x); return splitmix(&x); }

static int hexval(int c) { return c <= '9' ? c - '0' : (c | 32) - 'a' + 10; }
static int unhex(const char *s, unsigned char *out) { int n = 0; while (s[0] && s[1] && s[0] != ' ' && s[0] != '\n') { out[n++] = hexval(s[0]) << 4 | hexval(s[1]); s += 2; } return n; }

static int batch(void) {
  /* deterministic, fault-free syscall layer; one line per case, each case in its own child */
  static char line[200000]; static unsigned char raw[70100]; static char a[9000], b[9000];
  while (fgets(line, sizeof line, stdin)) {
    fflush(NULL);
    pid_t pid = fork();
    if (pid == 0) {
      have_viol = 0; nrec = 0; tape_pos = 0; nlog = 0; replay_mode = 1; replay_len = 0; keep_log = 0;
      now_us = 0; steps = 0; delivered = 0; req_len = 0; nreads = nwrites = nselects = 0; npw = 0; unwiped = 0; sock_open = sock_closed = 0; trigger_time = -1;
      socket_errno = connect_errno = 0; reply_trigger = 0; close_after = -1; reset_on_read = -1; peer_stops_reading_at = peer_closed_early_at = -1; eintr_budget = 0; short_io = 0; stale_errno_mode = 0; sig_period_us = 0;
      get_user_ret = get_item_ret = set_item_ret = PAM_SUCCESS; conv_mode = 0; stack_authtok = NULL; timeout_s = 3;
      pam_user = "user"; cur_password = "PWpassword";
      if (line[0] == 'R') { reply_len = unhex(line + 2, raw); memcpy(reply, raw, reply_len); }
      else if (line[0] == 'E') {
        char *sp = strchr(line + 2, ' '); if (!sp) _exit(0);
        int n1 = unhex(line + 2, (unsigned char *)a); a[n1] = 0; int n2 = unhex(sp + 1, (unsigned char *)b); b[n2] = 0;
        pam_user = a; cur_password = b; reply_len = 4; memcpy(reply, "\0\2OK", 4);
        char *sp2 = strchr(sp + 1, ' '); batch_chunk = sp2 ? atoi(sp2 + 1) : 0;
      } else _exit(0);
      nfrags = 1; frags[0].upto = reply_len; frags[0].at_us = 0; close_after = reply_len;
      struct pam_handle h; int ret = -1; in_module = 1;
      if (!setjmp(bail)) ret = pam_sm_authenticate(&h, 0, 0, NULL);
      in_module = 0;
      printf("%d ", ret); for (int i = 0; i < req_len; i++) printf("%02x", reqbuf[i]); printf("\n");
      fflush(NULL); _exit(0);
    }
    int st; waitpid(pid, &st, 0);
    if (!WIFEXITED(st) || WEXITSTATUS(st) != 0) printf("-99 crashed\n");
  }
  return 0;
}

int main(void) {
  setvbuf(stdout, NULL, _IONBF, 0);
  if (getenv("VERIF_PAM_BATCH")) return batch();
  const char *outp = getenv("VERIF_OUT"); FILE *out = outp ? fopen(outp, "a") : stdout; if (!out) return 2;
  known_csv = getenv("VERIF_KNOWN");
  const char *tier = getenv("VERIF_TIER"); if (!tier || !*tier) tier = "quick";
  static char detail[4 << 20];
  if (getenv("VERIF_REPLAY_TAPE")) {
    uint64_t seed = strtoull(getenv("VERIF_REPLAY_SEED"), NULL, 10);
    static int vals[MAXDEC]; int n = 0; const char *p = getenv("VERIF_REPLAY_TAPE");
    while (*p && n < MAXDEC) { vals[n++] = atoi(p); while (*p && *p != ',') p++; if (*p) p++; }
    result_t r; eval_in_fork(seed, vals, n, &r, 0, detail, sizeof detail);
    char *q = jsonbuf; q += sprintf(q, "{\"type\":\"replay\",\"prop\":\"C20\",\"seed\":%llu,\"log_hash\":\"%016llx\",\"sig\":\"", (unsigned long long)seed, (unsigned long long)r.loghash);
    if (r.viol) jesc(&q, r.sig); q += sprintf(q, "\",\"msg\":\""); if (r.viol) jesc(&q, r.msg);
    q += sprintf(q, "\",%s}\n", detail);
    fwrite(jsonbuf, 1, q - jsonbuf, out); fclose(out); return 0;
  }
  uint64_t base = getenv("VERIF_BASE") ? strtoull(getenv("VERIF_BASE"), NULL, 10) : 1;
  int from = getenv("VERIF_FROM") ? atoi(getenv("VERIF_FROM")) : 0, to = getenv("VERIF_TO") ? atoi(getenv("VERIF_TO")) : 1, stride = getenv("VERIF_STRIDE") ? atoi(getenv("VERIF_STRIDE")) : 1;
  long budget_ms = getenv("VERIF_BUDGET_MS") ? atol(getenv("VERIF_BUDGET_MS")) : 20000;
  const char *curp = getenv("VERIF_CUR");
  struct timespec t0; clock_gettime(CLOCK_MONOTONIC, &t0);
  long runs = 0, tsteps = 0, violating = 0; long long tsim = 0;
  long c_faultfree = 0, c_eintr = 0, c_reset = 0, c_epipe = 0, c_early_close = 0, c_stale = 0, c_short = 0, c_connect = 0, c_multi = 0;
  static uint64_t distinct[100000]; int ndistinct = 0;
  char reported[16][128]; int nreported = 0;
  char sample[2][700]; int nsample = 0;
  char known_all_sig[8][128], known_all_msg[8][300]; int nknown_all = 0;
  for (int idx = from; idx < to; idx += stride) {
    struct timespec t1; clock_gettime(CLOCK_MONOTONIC, &t1);
    if ((t1.tv_sec - t0.tv_sec) * 1000 + (t1.tv_nsec - t0.tv_nsec) / 1000000 > budget_ms) break;
    uint64_t seed = hash_seed(base, idx);
    if (curp) { FILE *c = fopen(curp, "w"); if (c) { fprintf(c, "%d %llu\n", idx, (unsigned long long)seed); fclose(c); } }
    result_t r; int want_detail = nsample < 2;
    eval_in_fork(seed, NULL, 0, &r, 1, want_detail ? detail : NULL, sizeof detail);
    if (getenv("VERIF_HASHLOG")) { FILE *h = fopen(getenv("VERIF_HASHLOG"), "a"); if (h) { fprintf(h, "%d %llu %016llx %d %d %s\n", idx, (unsigned long long)seed, (unsigned long long)r.loghash, r.nlog, r.tape_pos, r.viol ? r.sig : ""); fclose(h); } }
    runs++; tsteps += r.steps; tsim += r.sim_us;
    c_faultfree += r.fault_free; c_eintr += r.eintr > 0; c_reset += r.reset; c_epipe += r.epipe; c_early_close += r.early_close; c_stale += r.stale; c_short += r.short_io; c_connect += r.connect_err;
    if (want_detail && !r.crashed) { char *l = strstr(detail, "\"log\":["); if (l) { char *u = strstr(l, "user="); if (u) { snprintf(sample[nsample], 600, "%.590s", u); for (char *c = sample[nsample]; *c; c++) if (*c == '"') { *c = 0; break; } nsample++; } } }
    for (int i = 0; i < r.nknown; i++) { int seen = 0; for (int k = 0; k < nknown_all; k++) if (!strcmp(known_all_sig[k], r.known_sig[i])) seen = 1; if (!seen && nknown_all < 8) { strcpy(known_all_sig[nknown_all], r.known_sig[i]); snprintf(known_all_msg[nknown_all], 300, "seed=%llu: %.250s", (unsigned long long)seed, r.known_msg[i]); nknown_all++; } }
    if (r.reqlen > 0 && ndistinct < 100000 && !r.crashed) { uint64_t k = 0xcbf29ce484222325ULL; for (int i = 0; i < r.nrec; i++) { k ^= (uint64_t)rec_vals[i] + 1; k *= 0x100000001b3ULL; } distinct[ndistinct++] = k; }
    if (r.viol) {
      violating++;
      int seen = 0; for (int i = 0; i < nreported; i++) if (!strcmp(reported[i], r.sig)) seen = 1;
      if (seen || nreported >= 16) continue;
      strcpy(reported[nreported++], r.sig);
      char sig[128]; strcpy(sig, r.sig);
      static int vals[MAXDEC]; int n, orig;
      if (r.crashed) { n = orig = recover_tape(seed, vals); }   /* the child died before it could report its tape */
      else { n = orig = r.nrec; memcpy(vals, rec_vals, sizeof(int) * n); }
      n = minimise(seed, vals, n, sig);
      result_t fr;
      eval_in_fork(seed, vals, n, &fr, 0, detail, sizeof detail);
      char *q = jsonbuf; q += sprintf(q, "{\"type\":\"violation\",\"prop\":\"C20\",\"tier\":\"%s\",\"sig\":\"", tier); jesc(&q, fr.viol ? fr.sig : sig);
      q += sprintf(q, "\",\"msg\":\""); jesc(&q, fr.msg); q += sprintf(q, "\",\"seed\":%llu,\"idx\":%d,\"orig_tape_len\":%d,\"log_hash\":\"%016llx\",\"tape\":[", (unsigned long long)seed, idx, orig, (unsigned long long)fr.loghash);
      for (int i = 0; i < n; i++) q += sprintf(q, "%s%d", i ? "," : "", vals[i]);
      q += sprintf(q, "],%s}\n", detail);
      fwrite(jsonbuf, 1, q - jsonbuf, out); fflush(out);
    }
  }
  (void)c_multi;
  struct timespec t2; clock_gettime(CLOCK_MONOTONIC, &t2);
  char *q = jsonbuf;
  q += sprintf(q, "{\"type\":\"stats\",\"prop\":\"C20\",\"tier\":\"%s\",\"runs\":%ld,\"steps\":%ld,\"sim_time_ns\":%lld,\"wall_ms\":%ld,\"stats\":{\"violating-runs\":%ld,\"fault-free-runs\":%ld,\"fault:eintr\":%ld,\"fault:connection-reset\":%ld,\"fault:epipe\":%ld,\"fault:early-close\":%ld,\"fault:stale-errno\":%ld,\"fault:short-io\":%ld,\"fault:connect-refused\":%ld},",
               tier, runs, tsteps, tsim * 1000, (long)((t2.tv_sec - t0.tv_sec) * 1000 + (t2.tv_nsec - t0.tv_nsec) / 1000000), violating, c_faultfree, c_eintr, c_reset, c_epipe, c_early_close, c_stale, c_short, c_connect);
  q += sprintf(q, "\"known\":{"); for (int i = 0; i < nknown_all; i++) { if (i) *q++ = ','; *q++ = '"'; jesc(&q, known_all_sig[i]); q += sprintf(q, "\":\""); jesc(&q, known_all_msg[i]); *q++ = '"'; } q += sprintf(q, "},");
  q += sprintf(q, "\"samples\":["); for (int i = 0; i < nsample; i++) { if (i) *q++ = ','; *q++ = '"'; jesc(&q, sample[i]); *q++ = '"'; }
  q += sprintf(q, "],\"distinct\":["); for (int i = 0; i < ndistinct; i++) q += sprintf(q, "%s%llu", i ? "," : "", (unsigned long long)(distinct[i] >> 1));
  q += sprintf(q, "]}\n");
  fwrite(jsonbuf, 1, q - jsonbuf, out); fclose(out);
  return 0;
}
