/* Force-included before pam_whawty.c: first the system headers the module uses (so the
 * macros below cannot disturb them), then the redirection of its I/O and allocation
 * calls into the simulator (driver.c). pam_whawty.c itself is compiled unmodified. */
#ifndef SIM_SHIM_H
#define SIM_SHIM_H
#include <stdio.h>
#include <stdlib.h>
#include <string.h>
#include <stdarg.h>
#include <errno.h>
#include <sys/types.h>
#include <sys/socket.h>
#include <sys/un.h>
#include <sys/select.h>
#include <unistd.h>
#include <arpa/inet.h>
#include <sys/time.h>
#include <time.h>
#include <syslog.h>
int sim_socket(int domain, int type, int protocol);
int sim_connect(int fd, const struct sockaddr *addr, socklen_t len);
int sim_select(int nfds, fd_set *r, fd_set *w, fd_set *e, struct timeval *tv);
ssize_t sim_read(int fd, void *buf, size_t n);
ssize_t sim_write(int fd, const void *buf, size_t n);
ssize_t sim_recv(int fd, void *buf, size_t n, int flags);
ssize_t sim_send(int fd, const void *buf, size_t n, int flags);
int sim_close(int fd);
time_t sim_time(time_t *t);
char *sim_strdup(const char *s);
void sim_free(void *p);
#ifndef SIM_DRIVER
#define socket sim_socket
#define connect sim_connect
#define select sim_select
#define read sim_read
#define write sim_write
#define recv sim_recv
#define send sim_send
#define close sim_close
#define time sim_time
#define strdup sim_strdup
#define free sim_free
#endif
#endif
