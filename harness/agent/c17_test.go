//go:build verif

package main

import (
	"fmt"
	"github.com/whawty/auth/zzverif/simsignal"
	"io"
	"strings"
	"syscall"
	"testing/synctest"

	zxcvbn "github.com/nbutton23/zxcvbn-go"
	"github.com/urfave/cli"
	"github.com/whawty/auth/zzverif/simfs"
	"github.com/whawty/auth/zzverif/simrt"
)

func init() { register("C17", propC17) }

// runCLI calls main() in-process with the given arguments; returns the exit status.
func runCLI(args ...string) (code int) {
	code = -1
	prevExit, prevErr := cli.OsExiter, cli.ErrWriter
	cli.OsExiter = func(c int) {
		if code == -1 {
			code = c
		}
	}
	cli.ErrWriter = io.Discard
	defer func() { cli.OsExiter, cli.ErrWriter = prevExit, prevErr }()
	simfs.Args = append([]string{"whawty-auth"}, args...)
	main()
	synctest.Wait() // let the goroutines of this "process" settle (they stay behind, blocked)
	if code == -1 {
		code = 0
	}
	return
}

var policyPwPool = []string{strings.Repeat("a", 80), strings.Repeat("password", 9), strings.Repeat("qwerty", 12) + "1", "a", "password", "qwerty123", "alice2020", "whawty", "Tr0ub4dor&3", "correct horse battery staple", "zQ9#vLp2!xTe", "aaaaaaaaaaaaaaaaaaaaaaaa", "iloveyou", "J8$kd0-2mQ", "summer2024!", "x", "p@ssw0rd", "pr1nc3ss", "f00tb@ll", "P@ssw0rd1", "kX7#mP2$vL9@qR4&wT6!zN8%", "plinth ochre wombat sextant gherkin", "m.kowalczyk@srv-qx7.zt3k.example", "srv-qx7.zt3k.example", "whawtywhawty", "whawty-2024!", "abc \t \t\t  \t \t\t\t ", " \t \t  \t\t \t  abc"}

func propC17(r *Run) {
	inAgentBubble(r, func(w *AWorld) {
		cfg := GenConfig(r, "/srv/whawty/base")
		w.fs.PutDir(cfg.BaseDir, 0o700)
		// policy condition: valid or not
		kind := []string{"score", "entropy", "time"}[r.Choose("cond-kind", 3)]
		thr := map[string][]uint64{"score": {0, 1, 2, 3, 4}, "entropy": {0, 10, 20, 35, 60}, "time": {0, 1, 1000, 1000000, 1000000000000, 31536000, 18000000000000000000}}[kind][r.Choose("threshold", len(map[string][]int{"score": {0, 1, 2, 3, 4}, "entropy": {0, 1, 2, 3, 4}, "time": {0, 1, 2, 3, 4, 5, 6}}[kind]))]
		cond := fmt.Sprintf("%s >= %d", kind, thr)
		if thr < 100000 && r.Choose("zero-padded-threshold", 4) == 0 {
			cond = fmt.Sprintf("%s >= %04d", kind, thr) // still a decimal number
		}
		if r.Choose("bad-policy", 5) == 0 {
			bad := []string{"", "score", "score >= ", "score > 2", "score => 2", "score >= -1", "score >= 5", "score >= two", "strength >= 2", "score >= 2 extra", "entropy >= 1.5", "time >= 99999999999999999999", "SCORE >= 2", "score>=2", "score >= 0x2", "entropy >= 0b101", "time >= 1_000", "score >= 0o2", "score >= +2", "entropy >= 1e1"}[r.Choose("bad-cond", 20)]
			w.fs.Put("/etc/whawty/p.yaml", []byte(cfg.YAML()), 0o600)
			// whatever else is configured, an unparsable policy stops the agent from starting
			upg := []string{"", "local", "https://master.example/api/update", "http://10.0.0.1:8080/api/update"}[r.Choose("bad-policy-upgrades", 4)]
			_, err := NewStore("/etc/whawty/p.yaml", upg, "zxcvbn", bad, "")
			r.Logf("policy condition %q -> %v", bad, err)
			r.Nontrivial("bad|" + bad)
			if err == nil {
				r.Fail("policy/unparsable-accepted", "policy condition %q was accepted; an unparsable policy must stop the agent from starting", bad)
			}
			if _, err := NewStore("/etc/whawty/p.yaml", upg, "nosuchpolicy", "score >= 1", ""); err == nil {
				r.Fail("policy/unknown-type-accepted", "unknown policy type accepted")
			}
			return
		}
		passes := func(u, pw string) bool {
			m := zxcvbn.PasswordStrength(pw, []string{u, "whawty"})
			switch kind {
			case "score":
				return m.Score >= int(thr)
			case "entropy":
				return m.Entropy >= float64(thr)
			}
			return m.CrackTime >= float64(thr)
		}
		stored := map[string]string{}
		admin := map[string]bool{}
		legacy := map[string]bool{} // password stored before the policy existed
		// init through the CLI or the agent interface
		cfgPath := "/etc/whawty/agent0.yaml"
		w.fs.Put(cfgPath, []byte(cfg.YAML()), 0o600)
		trace := []string{}
		note := func(path, op, u, pw string, ok bool) {
			trace = append(trace, fmt.Sprintf("%s %s(%s,%s) passes=%v -> ok=%v", path, op, u, simrt.Q(pw), passes(u, pw), ok))
			r.Logf("  %s", trace[len(trace)-1])
			r.Nontrivial(fmt.Sprintf("%s|%s|%s|%s|%s", cond, path, op, u, pw))
		}
		judge := func(path, op, u, pw string, ok bool, mutated bool, semanticOK bool) {
			note(path, op, u, pw, ok)
			if !passes(u, pw) {
				if ok {
					r.Fail("policy/failing-password-stored/"+path+"/"+op, "policy %q: %s %s stored password %s for %s although it fails the policy", cond, path, op, simrt.Q(pw), u)
				}
				if mutated {
					r.Fail("policy/refused-but-wrote/"+path+"/"+op, "policy %q: refused %s of %s changed the store", cond, op, u)
				}
			} else if !ok && semanticOK {
				r.Fail("policy/passing-password-refused/"+path+"/"+op, "policy %q: %s %s refused password %s for %s although it satisfies the policy and the operation is otherwise valid", cond, path, op, simrt.Q(pw), u)
			}
		}
		initPW := policyPwPool[r.Choose("init-pw", len(policyPwPool))]
		{
			before := w.fs.Snapshot(cfg.BaseDir)
			code := runCLI("--store", cfgPath, "--policy-type", "zxcvbn", "--policy-condition", cond, "init", "root", initPW)
			after := w.fs.Snapshot(cfg.BaseDir)
			judge("cli", "init", "root", initPW, code == 0, len(diffNoTmp(before, after)) > 0, true)
			if code == 0 {
				stored["root"], admin["root"] = initPW, true
			}
		}
		if _, ok := stored["root"]; !ok {
			// make the store valid with a passing password so that the rest can run
			good := "zQ9#vLp2!xTe-verif-0193"
			if code := runCLI("--store", cfgPath, "--policy-type", "zxcvbn", "--policy-condition", cond, "init", "root", good); code != 0 {
				if passes("root", good) {
					r.Fail("policy/passing-password-refused/cli/init", "init with a strong password failed (exit %d), policy %q", code, cond)
				}
				return
			}
			stored["root"], admin["root"] = good, true
		}
		// accounts that predate the policy: their (possibly weak) passwords were stored when no
		// policy was configured; re-submitting such a password under the policy must be refused
		def17 := cfg.SetMap()[cfg.Default]
		upg17 := []string{"", "local"}[r.Choose("c17-upgrades", 2)]
		if upg17 == "local" {
			// with local hash upgrades the legacy records sit under an outdated parameter set: a
			// login would rewrite them - which is a write of that password and needs the policy too
			for _, s := range cfg.Sets {
				if s.ID != cfg.Default {
					def17 = s
				}
			}
		}
		for i, u := range []string{"legacy1", "legacy2"} {
			pw := policyPwPool[r.Choose("legacy-pw", len(policyPwPool))]
			salt := make([]byte, def17.SaltLen())
			salt[0] = byte(40 + i)
			w.fs.Put(cfg.BaseDir+"/"+u+".user", []byte(RefWrite(def17, pw, salt, 1000)+"\n"), 0o600)
			stored[u] = pw
			legacy[u] = true
		}
		a, err := w.bootAgentExisting(cfg, cfgPath, upg17, "zxcvbn", cond, "")
		if err != nil {
			r.Fail("harness/boot", "%v", err)
		}
		w.startWeb(a)
		users := []string{"root", "alice", "bob", "legacy1", "legacy2", "m.kowalczyk@srv-qx7.zt3k.example", "qx7", "al", "z", "jo9k"}
		n := 4 + r.Choose("nwrites", 10)
		for k := 0; k < n; k++ {
			u := users[r.Choose("user", len(users))]
			pw := policyPwPool[r.Choose("pw", len(policyPwPool))]
			if cur, ok := stored[u]; ok && r.Choose("same-password", 4) == 0 {
				pw = cur // re-submit the current password
			}
			if r.Choose("password-from-name", 5) == 0 {
				// a password built around the account's own name: the policy is evaluated with the name
				// as known input, however short the name is
				name := strings.SplitN(u, "@", 2)[0]
				pw = []string{name + "-zkw9", name + "-Tr7x", name + name + "!9", strings.ToUpper(name) + ".q8Wz", "x" + name + "4k;Pm"}[r.Choose("name-pw-form", 5)]
			}
			_, exists := stored[u]
			op := "update"
			if !exists {
				op = "add"
			}
			if r.Choose("reload-between-writes", 8) == 0 {
				// the operator reloads the (unchanged) store configuration: the policy comes from the
				// command line and stays in force
				simsignal.Raise(syscall.SIGHUP, -1)
				if wedge := w.settle(nil); wedge != "" {
					r.FailOther("C10", wedgeSignature(wedge), "%s", wedge)
					return
				}
				r.Count("fault:sighup-reload")
			}
			path := []string{"cli", "api-admin", "api-self", "api-oldpw", "agent"}[r.Choose("path", 5)]
			before := w.fs.Snapshot(cfg.BaseDir)
			ok := false
			semanticOK := true
			switch path {
			case "cli":
				code := runCLI("--store", cfgPath, "--policy-type", "zxcvbn", "--policy-condition", cond, op, u, pw)
				ok = code == 0
			case "agent":
				c := &Call{Kind: op, Via: "agent", Agent: a.idx, User: u, PW: pw}
				w.addClient([]*Call{c})
				w.settle(nil)
				ok = c.OK
			default:
				who := "root"
				if path == "api-self" {
					who = u
				}
				if _, ex := stored[who]; !ex {
					continue
				}
				if path == "api-self" && op == "add" {
					continue
				}
				c := &Call{Kind: op, Via: "api", Agent: a.idx, User: u, PW: pw}
				if path == "api-oldpw" {
					if op == "add" {
						continue
					}
					c.OldPW = stored[u]
				} else {
					l := &Call{Kind: "authenticate", Via: "api", Agent: a.idx, User: who, PW: stored[who]}
					w.addClient([]*Call{l})
					w.settle(nil)
					if l.Token == "" {
						r.FailOther("C06", "token/not-issued", "login of %s failed: %s", who, l.Err)
						return
					}
					if path == "api-admin" && !admin[who] {
						continue
					}
					c.Session = l.Token
				}
				w.addClient([]*Call{c})
				w.settle(nil)
				ok = c.OK
			}
			after := w.fs.Snapshot(cfg.BaseDir)
			// with local upgrades a login that is part of the request (session login, old-password
			// check) may rewrite the logged-in user's record under the default set for the SAME
			// password: that is not an effect of the refused request - but it is a write of that
			// password, which needs the policy as well
			var realDiff []string
			for _, dd := range diffNoTmp(before, after) {
				pth := strings.SplitN(dd, " ", 2)[1]
				x := strings.TrimSuffix(strings.TrimSuffix(strings.TrimPrefix(pth, cfg.BaseDir+"/"), ".user"), ".admin")
				if e, okf := after[pth]; okf && upg17 == "local" && !(ok && x == u) {
					line := strings.SplitN(e.Data, "\n", 2)[0]
					defS := cfg.SetMap()[cfg.Default]
					if rec, perr := ParseStrict(line); perr == nil && uint(rec.ParamID) == cfg.Default {
						if dg := defS.Digest(stored[x], rec.Salt); dg != nil && string(dg) == string(rec.Digest) {
							if !passes(x, stored[x]) {
								r.Fail("policy/failing-password-stored/upgrade", "policy %q: a login of %s during %s %s rewrote the record (hash upgrade) with password %s, which fails the policy", cond, x, path, op, simrt.Q(stored[x]))
							}
							continue
						}
					}
				}
				realDiff = append(realDiff, dd)
			}
			judge(path, op, u, pw, ok, len(realDiff) > 0, semanticOK)
			if ok {
				stored[u] = pw
				delete(legacy, u) // written under the policy now
			}
		}
		// every stored password of the model passes the policy and authenticates
		for _, u := range sortedKeysA(stored) {
			pw := stored[u]
			if !passes(u, pw) && !legacy[u] {
				r.Fail("policy/failing-password-stored/final", "%s has password %s which fails %q", u, simrt.Q(pw), cond)
			}
			_, before, _ := w.fileOf(cfg.BaseDir, u)
			c := &Call{Kind: "authenticate", Via: "agent", Agent: a.idx, User: u, PW: pw}
			w.addClient([]*Call{c})
			w.settle(nil)
			if !c.OK {
				r.FailOther("C01", "verdict/authenticate", "stored password of %s does not authenticate: %s", u, c.Err)
			}
			if t := strings.TrimSpace(pw); t != pw && t != "" && !passes(u, t) {
				// what is stored is the password that was judged, not a weaker relative of it
				c2 := &Call{Kind: "authenticate", Via: "agent", Agent: a.idx, User: u, PW: t}
				w.addClient([]*Call{c2})
				w.settle(nil)
				if c2.OK {
					r.Fail("policy/failing-password-stored/trimmed", "policy %q: %s was accepted for %s, but what is stored also verifies %s, which fails the policy", cond, simrt.Q(pw), u, simrt.Q(t))
				}
			}
			if _, after, _ := w.fileOf(cfg.BaseDir, u); after != before && !passes(u, pw) {
				r.Fail("policy/failing-password-stored/upgrade", "policy %q: a login of %s rewrote the record (hash upgrade) with password %s, which fails the policy", cond, u, simrt.Q(pw))
			}
		}
		r.Steps += n
		r.Sample(map[string]any{"policy": cond, "writes": trace})
	})
}

func diffNoTmp(a, b map[string]simfs.Entry) []string {
	var out []string
	for _, d := range simfs.DiffSnap(a, b) {
		if !strings.HasSuffix(d, "/.tmp") {
			out = append(out, d)
		}
	}
	return out
}
