//go:build verif

package main

import (
	"fmt"
	"io/fs"
	"strings"
	"syscall"
	"time"

	"github.com/whawty/auth/sasl"
	"github.com/whawty/auth/zzverif/simfs"
	"github.com/whawty/auth/zzverif/simsignal"

	ber "github.com/go-asn1-ber/asn1-ber"
	"github.com/whawty/auth/zzverif/simexec"
	"github.com/whawty/auth/zzverif/simnet"
)

func init() { register("C10", propC10) }

// ldapBind performs one LDAP simple bind over the simulated network.
func ldapBind(addr, dn, pw string) (bool, string) {
	conn, err := simnet.Dial("tcp", addr)
	if err != nil {
		return false, err.Error()
	}
	defer conn.Close()
	packet := ber.Encode(ber.ClassUniversal, ber.TypeConstructed, ber.TagSequence, nil, "LDAP Request")
	packet.AppendChild(ber.NewInteger(ber.ClassUniversal, ber.TypePrimitive, ber.TagInteger, 1, "MessageID"))
	bind := ber.Encode(ber.ClassApplication, ber.TypeConstructed, 0, nil, "Bind Request")
	bind.AppendChild(ber.NewInteger(ber.ClassUniversal, ber.TypePrimitive, ber.TagInteger, 3, "Version"))
	bind.AppendChild(ber.NewString(ber.ClassUniversal, ber.TypePrimitive, ber.TagOctetString, dn, "User Name"))
	bind.AppendChild(ber.NewString(ber.ClassContext, ber.TypePrimitive, 0, pw, "Password"))
	packet.AppendChild(bind)
	if _, err := conn.Write(packet.Bytes()); err != nil {
		return false, err.Error()
	}
	resp, err := ber.ReadPacket(conn)
	if err != nil {
		return false, err.Error()
	}
	if len(resp.Children) < 2 || len(resp.Children[1].Children) < 1 {
		return false, "malformed bind response"
	}
	code, ok := resp.Children[1].Children[0].Value.(int64)
	if !ok {
		return false, "malformed result code"
	}
	return code == 0, fmt.Sprintf("ldap result %d", code)
}

// AUser is the agent-level model of one user.
type AUser struct {
	PW    string
	Set   PSet
	Admin bool
	Stamp int64
	Aux   string
}

// populateDir writes nusers reference-written records (any configured set) into the
// store directory of cfg; the first user is an administrator.
func (w *AWorld) populateDir(cfg Config, nusers int, nonDefaultBias bool) map[string]*AUser {
	r := w.r
	w.fs.PutDir(cfg.BaseDir, 0o700)
	m := map[string]*AUser{}
	for i := 0; i < nusers; i++ {
		u := []string{"root", "alice", "bob", "carol"}[i]
		set := cfg.Sets[r.Choose("pop-set", len(cfg.Sets))]
		if nonDefaultBias && len(cfg.Sets) > 1 && r.Choose("pop-nondefault", 3) > 0 {
			for _, s := range cfg.Sets {
				if s.ID != cfg.Default {
					set = s
				}
			}
		}
		pw := fmt.Sprintf("initial-%s-pw", u)
		salt := make([]byte, set.SaltLen())
		for j := range salt {
			salt[j] = byte(i*17 + j + 1)
		}
		admin := i == 0 || r.Choose("pop-admin", 3) == 0
		ext := ".user"
		if admin {
			ext = ".admin"
		}
		aux := []string{"", "totp: c2VjcmV0\n", "u2f: a2V5\ntotp: eA=="}[r.Choose("pop-aux", 3)]
		stamp := time.Now().Unix() - int64(5000*(i+1))
		w.fs.Put(cfg.BaseDir+"/"+u+ext, []byte(RefWrite(set, pw, salt, stamp)+"\n"+aux), 0o600)
		m[u] = &AUser{PW: pw, Set: set, Admin: admin, Stamp: stamp, Aux: aux}
	}
	return m
}

// hooksSetup creates a hooks directory with a mix of entries and behaviours.
func (w *AWorld) hooksSetup(dir string) {
	r := w.r
	w.fs.PutDir(dir, 0o755)
	names := []string{"10-sync", "20-notify", "30-slow"}
	beh := map[string]simexec.Behaviour{}
	for _, n := range names[:1+r.Choose("nhooks", 3)] {
		w.fs.Put(dir+"/"+n, []byte("#!/bin/sh\n"), 0o755)
		switch r.Choose("hook-behaviour", 4) {
		case 0:
			beh[dir+"/"+n] = simexec.Behaviour{ExitAfter: 10 * time.Millisecond}
		case 1:
			beh[dir+"/"+n] = simexec.Behaviour{ExitAfter: time.Second, ExitCode: 1}
			r.Count("fault:hook-fails")
		case 2:
			beh[dir+"/"+n] = simexec.Behaviour{Hang: true, IgnoreTerm: true}
			r.Count("fault:hook-hangs")
		case 3:
			beh[dir+"/"+n] = simexec.Behaviour{StartErr: fmt.Errorf("fork/exec: resource temporarily unavailable")}
			r.Count("fault:hook-start-fails")
		}
	}
	w.ex.Behave = func(path string) simexec.Behaviour { return beh[path] }
}

// twoSetConfig draws a configuration with at least two parameter sets.
func twoSetConfig(r *Run, base string) Config {
	for {
		c := GenConfig(r, base)
		if len(c.Sets) >= 2 {
			return c
		}
		id := uint(9)
		for _, s := range c.Sets {
			if s.ID == id {
				id++
			}
		}
		c.Sets = append(c.Sets, GenPSet(r, id))
		c.Default = c.Sets[r.Choose("default2", len(c.Sets))].ID
		return c
	}
}

// workload profiles (swarm): 0 general mix, 1 login storm, 2 update storm
var profileKinds = [][]int{
	{0, 1, 2, 3, 4, 5, 6, 7, 8, 9},
	{0, 0, 0, 0, 0, 0, 0, 0, 5, 9},
	{0, 0, 0, 0, 5, 5, 5, 5, 5, 4},
}

func genCall(r *Run, agent int, users []string, model map[string]*AUser, vias []string, profile int) *Call {
	u := users[r.Choose("call-user", len(users))]
	c := &Call{Agent: agent, User: u, Via: "agent"}
	kind := profileKinds[profile][r.Choose("call-kind", 10)]
	if profile > 0 && kind == 0 {
		// storms log in with the right password
		c.Kind, c.PW = "authenticate", model[u].PW
		c.Via = vias[r.Choose("via", len(vias))]
		return c
	}
	switch kind {
	case 0, 1, 2, 3:
		c.Kind = "authenticate"
		c.PW = "wrong-password"
		if m := model[u]; m != nil && r.Choose("right-pw", 4) > 0 {
			c.PW = m.PW
		}
		c.Via = vias[r.Choose("via", len(vias))]
	case 4:
		c.Kind, c.PW, c.Admin = "add", fmt.Sprintf("added-pw-%d", r.Choose("pwn", 50)), r.Choose("admin", 2) == 1
		c.User = []string{"newbie", "zed", u}[r.Choose("add-name", 3)]
	case 5, 6:
		c.Kind, c.PW = "update", fmt.Sprintf("updated-pw-%d", r.Choose("pwn", 50))
		if m := model[u]; m != nil && r.Choose("update-to-same-password", 4) == 0 {
			c.PW = m.PW // a retried or redundant change: the password the record already holds
		}
		if m := model[u]; m != nil && len(vias) > 1 && r.Choose("update-over-web-api", 3) == 0 {
			// the web interface: a change authorised by the old password (right or wrong), and what a
			// replica sends for a remote hash upgrade - the old password and no new one
			c.Via, c.OldPW = "api", m.PW
			r.Count("probe:password-change-over-web-api")
			switch r.Choose("web-update-kind", 4) {
			case 0:
				c.Kind, c.PW = "reauth", m.PW
				r.Count("probe:upgrade-only-request-over-web-api")
			case 1:
				c.OldPW = "not-the-old-password"
			}
		}
	case 7:
		c.Kind = "remove"
		if u == "root" {
			c.User = "bob"
		}
	case 8:
		c.Kind, c.Admin = "set-admin", r.Choose("admin", 2) == 1
		if u == "root" {
			c.Admin = true
		}
	case 9:
		c.Kind = []string{"list", "list-full", "check"}[r.Choose("ro-kind", 3)]
	}
	return c
}

func wedgeSignature(desc string) string {
	if !strings.Contains(desc, "is NOT back at its select") {
		return "wedge/requests-unanswered" // every dispatcher is idle, yet calls are pending
	}
	for _, l := range strings.Split(desc, "\n") {
		if strings.Contains(l, "dispatchRequests") && strings.Contains(l, "[chan") {
			for _, x := range strings.Fields(strings.TrimSpace(l)) {
				if strings.HasPrefix(x, "whawty-auth.") {
					return "wedge/dispatcher-blocked-in-" + strings.TrimPrefix(x, "whawty-auth.")
				}
			}
		}
	}
	return "wedge/requests-unanswered"
}

func propC10(r *Run) {
	inAgentBubble(r, func(w *AWorld) {
		cfg := twoSetConfig(r, "/srv/whawty/base")
		model := w.populateDir(cfg, 2+r.Choose("nusers", 3), true)
		users := sortedKeysA(model)
		mode := []string{"", "local", "local", "remote"}[r.Choose("upgrade-mode", 4)]
		hooks := ""
		if r.Choose("with-hooks", 2) == 1 {
			hooks = "/etc/whawty/hooks"
			w.hooksSetup(hooks)
		}
		upg := mode
		var master *Agent
		if mode == "remote" {
			upg = "http://master.example/api/update"
			mcfg := cfg
			mcfg.BaseDir = "/srv/whawty/master"
			w.populateDirCopy(cfg.BaseDir, mcfg.BaseDir)
			var err error
			master, err = w.bootAgent(mcfg, "", "", "", "")
			if err != nil {
				r.Fail("harness/boot-master", "%v", err)
			}
			w.startWeb(master)
			w.rtMaster = master
			w.rtMode = []string{"deliver", "refuse", "stall", "slow"}[r.Choose("master-behaviour", 4)]
			if w.rtMode == "stall" {
				r.Count("fault:master-stalled")
			}
		}
		a, err := w.bootAgent(cfg, upg, "", "", hooks)
		if err != nil {
			r.Fail("harness/boot", "%v", err)
		}
		vias := []string{"agent"}
		if r.Choose("frontends", 2) == 1 {
			w.startWeb(a)
			w.startSasl(a)
			w.startLDAP(a)
			vias = []string{"agent", "agent", "sasl", "ldap", "basic", "api"}
		}
		// peers that connect to the saslauthd socket, send part of a request and then just stay
		// connected: they must not take anything away from anybody else, however many they are
		var stalled []simnet.Conn
		if len(vias) > 1 && r.Choose("stalled-sasl-peers", 5) == 0 {
			full, _ := (&sasl.Request{Login: "slow-peer", Password: "irrelevant", Service: "svc", Realm: ""}).Marshal()
			npeers := []int{3, 20, 70}[r.Choose("nstalled-peers", 3)]
			for i := 0; i < npeers; i++ {
				c, derr := simnet.Dial("unix", a.saslPath)
				if derr != nil {
					r.Fail("frontend/refuses-connection", "saslauthd socket refuses connection #%d: %v", i, derr)
				}
				c.Write(full[:1+i%(len(full)-1)]) //nolint
				stalled = append(stalled, c)
			}
			r.Count("fault:stalled-sasl-peers")
		}
		defer func() {
			for _, c := range stalled {
				c.Close() //nolint
			}
		}()
		profile := []int{0, 0, 1, 2, 3, 4}[r.Choose("workload-profile", 6)]
		nclients := 1 + r.Choose("nclients", 14)
		if profile > 0 {
			nclients = 8 + r.Choose("nclients-storm", 7)
		}
		if profile == 3 || profile == 4 {
			nclients = 3 + r.Choose("nclients-changes", 3) // a long series of successful changes (hooks are notified of each)
		}
		ncalls := 0
		for i := 0; i < nclients; i++ {
			n := 1 + r.Choose("ncalls", 5)
			if profile > 0 {
				n += 2
			}
			if profile == 3 || profile == 4 {
				n = 12 + r.Choose("ncalls-changes", 8)
			}
			var plan []*Call
			for k := 0; k < n; k++ {
				if profile == 3 {
					u := users[r.Choose("user", len(users))]
					plan = append(plan, &Call{Agent: a.idx, Via: "agent", Kind: "update", User: u, PW: fmt.Sprintf("changed-%d-%d", i, k)})
					continue
				}
				if profile == 4 {
					// a long series of removals (mostly of users that do not exist: a remove always
					// reports success and always notifies)
					plan = append(plan, &Call{Agent: a.idx, Via: "agent", Kind: "remove", User: fmt.Sprintf("ghost-%d-%d", i, k)})
					continue
				}
				plan = append(plan, genCall(r, a.idx, users, model, vias, profile))
			}
			ncalls += n
			w.addClient(plan)
		}
		// swarm: in a quarter of the runs a few file-system operations fail (full disk, I/O error,
		// descriptor exhaustion); requests may then fail, but every one must still be answered
		if r.Choose("disk-faults", 4) == 0 {
			nf := 1 + r.Choose("ndisk-faults", 3)
			at := map[int]syscall.Errno{}
			for i := 0; i < nf; i++ {
				at[w.fs.NOps+r.Choose("disk-fault-at", 400)] = []syscall.Errno{syscall.EIO, syscall.ENOSPC, syscall.EMFILE, syscall.EACCES}[r.Choose("disk-errno", 4)]
			}
			w.fs.Plan = func(seq int, kind, real string) *simfs.Fault {
				if e, ok := at[seq]; ok && kind != "close" {
					r.Count("fault:disk-" + e.Error())
					return &simfs.Fault{Errno: e}
				}
				return nil
			}
		}
		if r.Choose("fs-yields", 8) == 0 {
			w.fsYields()
		}
		if len(vias) > 1 && r.Choose("net-yields", 4) == 0 {
			w.netYields()
		}
		// dispatcher slowness: how reluctant the scheduler is to let the service loops run
		slow := []int{1, 1, 3, 10, 40}[r.Choose("dispatcher-slowness", 5)]
		o := loopOpts{maxSteps: 1500, wClient: slow * 4, wLoop: 4, wClock: 1}
		if mode == "remote" {
			o.wExtra = 3
			o.extra = func() []action {
				var out []action
				w.rtMu.Lock()
				defer w.rtMu.Unlock()
				if w.rtMode == "stall" {
					return nil
				}
				for i, p := range w.rtPending {
					i, p := i, p
					out = append(out, action{3, fmt.Sprintf("deliver remote upgrade request #%d to the master", i), func() {
						w.rtMu.Lock()
						w.rtPending = append(w.rtPending[:i], w.rtPending[i+1:]...)
						w.rtMu.Unlock()
						m := "deliver"
						if r.Choose("master-5xx", 8) == 0 {
							m = "500"
						}
						w.deliverHTTP(p, m)
					}})
				}
				return out
			}
		}
		// transient accept() failures on the saslauthd socket (descriptor exhaustion): the frontend
		// must keep accepting afterwards
		if len(vias) > 1 && r.Choose("accept-faults", 3) == 0 {
			prev := o.extra
			left := 1 + r.Choose("naccept-faults", 2)
			o.wExtra = 3
			o.extra = func() []action {
				var out []action
				if prev != nil {
					out = prev()
				}
				if left > 0 {
					out = append(out, action{3, "accept() on the saslauthd socket fails once with EMFILE", func() {
						left--
						w.nw.InjectAcceptError(a.saslPath, syscall.EMFILE)
						r.Count("fault:accept-emfile")
					}})
				}
				return out
			}
		}
		// reload signals while requests are in flight (the configuration has not changed, so every
		// reload succeeds): "no request pattern, however timed" includes the operator's SIGHUPs
		if r.Choose("reload-signals", 3) == 0 {
			prev := o.extra
			left := 1 + r.Choose("nreload-signals", 4)
			garbled := false
			o.wExtra = 3
			o.extra = func() []action {
				var out []action
				if prev != nil {
					out = prev()
				}
				if left > 0 {
					out = append(out, action{2, "SIGHUP (reload, configuration unchanged)", func() {
						left--
						simsignal.Raise(syscall.SIGHUP, -1)
						r.Count("fault:sighup-reload")
					}})
					if orig, ok := w.fs.Get(a.cfgPath); ok && !garbled {
						out = append(out, action{1, "SIGHUP while the configuration file is half-edited (the reload is refused, the agent carries on)", func() {
							left--
							garbled = true
							w.fs.Put(a.cfgPath, append([]byte("basedir: [unterminated\n"), orig...), 0o600)
							simsignal.Raise(syscall.SIGHUP, -1)
							r.Count("fault:sighup-reload-refused")
						}})
					}
				}
				return out
			}
		}
		w.runLoop(o)
		drainExtra := func() bool {
			w.rtMu.Lock()
			defer w.rtMu.Unlock()
			if w.rtMode == "stall" || len(w.rtPending) == 0 {
				return false
			}
			p := w.rtPending[0]
			w.rtPending = w.rtPending[1:]
			w.deliverHTTP(p, "deliver")
			return true
		}
		// first without advancing the clock: nothing in the agent needs time to answer a request
		// (hooks run in the background, remote upgrades are asynchronous)
		if stalled := w.quiesce(drainExtra); stalled != "" {
			// requests are pending although everything runnable has run; does time resolve it?
			if wedge := w.drain(drainExtra); wedge == "" {
				r.Fail("stall/requests-wait-for-time", "upgrade mode %q, hooks=%v: requests were only answered after the clock advanced (a hook time limit or a timer delayed the agent); without advancing the clock: %s", mode, hooks != "", stalled)
			}
		}
		if wedge := w.drain(drainExtra); wedge != "" {
			if w.maxQ["update"] >= 10 {
				r.Count("probe:update-queue-full-at-wedge")
			}
			r.Fail(wedgeSignature(wedge), "upgrade mode %q, %d clients, %d calls, dispatcher slowness %d: %s", mode, nclients, ncalls, slow, wedge)
		}
		// the agent keeps accepting new requests
		probe := &Call{Kind: "authenticate", Via: "agent", Agent: a.idx, User: "root", PW: "x"}
		w.addClient([]*Call{probe})
		if a.saslPath != "" {
			// ... on every frontend
			w.addClient([]*Call{{Kind: "authenticate", Via: "sasl", Agent: a.idx, User: "root", PW: "x"}})
			w.addClient([]*Call{{Kind: "authenticate", Via: "ldap", Agent: a.idx, User: "root", PW: "x"}})
		}
		if wedge := w.drain(drainExtra); wedge != "" {
			r.Fail(wedgeSignature(wedge)+"/after-load", "after the load the agent no longer answers: %s", wedge)
		}
		if a.saslPath != "" && r.Choose("long-uptime", 3) == 0 {
			// ... and after it has been up for a long time: an account put into the directory by the
			// synchronisation job logs in over the web API (a session is sealed), uses the session
			// (it is opened), and logs in on the other frontends
			up := []time.Duration{25 * time.Hour, 8 * 24 * time.Hour, 400 * 24 * time.Hour}[r.Choose("uptime", 3)]
			time.Sleep(up)
			r.Logf("clock +%v (uptime)", up)
			r.Count("probe:long-uptime")
			def := cfg.SetMap()[cfg.Default]
			w.fs.Put(cfg.BaseDir+"/zz-late-admin.admin", []byte(RefWrite(def, "late-admin-pw", make([]byte, def.SaltLen()), time.Now().Unix())+"\n"), 0o600)
			login := &Call{Kind: "authenticate", Via: "api", Agent: a.idx, User: "zz-late-admin", PW: "late-admin-pw"}
			w.addClient([]*Call{login})
			w.addClient([]*Call{{Kind: "authenticate", Via: "basic", Agent: a.idx, User: "zz-late-admin", PW: "late-admin-pw"}})
			if wedge := w.drain(drainExtra); wedge != "" {
				r.Fail(wedgeSignature(wedge)+"/after-long-uptime", "after %v of uptime the agent no longer answers: %s", up, wedge)
			}
			w.addClient([]*Call{{Kind: "list", Via: "api", Agent: a.idx, Session: login.Token}})
			w.addClient([]*Call{{Kind: "authenticate", Via: "sasl", Agent: a.idx, User: "zz-late-admin", PW: "late-admin-pw"}})
			if wedge := w.drain(drainExtra); wedge != "" {
				r.Fail(wedgeSignature(wedge)+"/after-long-uptime", "after %v of uptime the agent no longer answers: %s", up, wedge)
			}
		}
		for k, v := range w.maxQ {
			if v >= 10 {
				r.Count("probe:queue-" + k + "-reached-capacity")
			}
		}
		r.Nontrivial(fmt.Sprintf("%x|%s|%d|%d", w.schedHash, mode, nclients, ncalls))
		r.Sample(map[string]any{"workload_profile": profile, "upgrade_mode": mode, "clients": nclients, "calls": ncalls, "dispatcher_slowness": slow, "steps": w.step, "max_queue_occupancy": w.maxQ, "hooks": hooks != ""})
	})
}

func sortedKeysA[V any](m map[string]V) []string {
	var k []string
	for s := range m {
		k = append(k, s)
	}
	for i := range k {
		for j := i + 1; j < len(k); j++ {
			if k[j] < k[i] {
				k[i], k[j] = k[j], k[i]
			}
		}
	}
	return k
}

// populateDirCopy copies a store directory (master = copy of the replica's content).
func (w *AWorld) populateDirCopy(from, to string) {
	w.fs.PutDir(to, 0o700)
	snap := w.fs.Snapshot(from)
	for _, p := range sortedKeysA(snap) {
		// the records only: a temporary file of an operation in flight is not part of the store
		if e := snap[p]; e.Kind == "file" && !strings.Contains(strings.TrimPrefix(p, from), "/.tmp/") {
			w.fs.Put(to+strings.TrimPrefix(p, from), []byte(e.Data), e.Perm)
		}
	}
}

type simfsFileMode = fs.FileMode

// fsMode translates unix permission bits (incl. sticky / setgid / setuid) into fs.FileMode.
func fsMode(p uint32) simfsFileMode {
	m := simfsFileMode(p & 0o777)
	if p&0o1000 != 0 {
		m |= fs.ModeSticky
	}
	if p&0o2000 != 0 {
		m |= fs.ModeSetgid
	}
	if p&0o4000 != 0 {
		m |= fs.ModeSetuid
	}
	return m
}
