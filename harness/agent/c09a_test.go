//go:build verif

package main

// C09, agent clause: a change acknowledged *through the agent* (init, add, update, set-admin,
// remove answered with success by the dispatcher) is in every power-loss image reachable from the
// state at the acknowledgement. The library clause (package store) sweeps the store functions; this
// one covers what the agent does around them - in particular initialising a store whose base
// directory the agent itself may have had to create, where the new directory's entry in its parent
// is one more thing that has to be durable before "successfully initialized" is said.

import (
	"fmt"
	"strings"

	"github.com/whawty/auth/zzverif/simfs"
)

func init() { register("C09", propC09A) }

func propC09A(r *Run) {
	inAgentBubble(r, func(w *AWorld) {
		base := "/srv/whawty/base"
		fresh := r.Choose("fresh-store", 2) == 1
		freshKind := 0
		model := map[string]*AUser{}
		var cfg Config
		if fresh {
			// 0: the base directory exists and is empty; 1: it is missing, its parent exists;
			// 2: parent missing as well
			freshKind = r.Choose("fresh-base-dir", 3)
			w.fs.PutDir("/srv/whawty", 0o755)
			switch freshKind {
			case 0:
				w.fs.PutDir(base, 0o700)
			case 1:
				base = "/srv/whawty/new-store"
			case 2:
				base = "/srv/whawty/instances/a/store"
			}
			cfg = twoSetConfig(r, base)
		} else {
			cfg = twoSetConfig(r, base)
			model = w.populateDir(cfg, 2+r.Choose("nusers", 3), true)
		}
		w.fs.SyncAll()
		a, err := w.bootAgent(cfg, "", "", "", "")
		if err != nil {
			if fresh && freshKind != 0 {
				r.Logf("agent refuses a configuration whose base directory is missing: %v", err)
				return
			}
			r.Fail("harness/boot", "%v", err)
		}
		w.fs.SyncAll() // the configuration file written by the harness is not part of the question
		limit := 16
		if r.Tier == "thorough" {
			limit = 64
		}
		verifies := func(img *simfs.FS, u, ext, pw string) string {
			b, ok := img.Get(cfg.BaseDir + "/" + u + ext)
			if !ok {
				return "the file is not there"
			}
			rec, perr := ParseStrict(strings.SplitN(string(b), "\n", 2)[0])
			if perr != nil {
				return fmt.Sprintf("the file does not hold a complete record (%v): %q", perr, string(b[:min(len(b), 60)]))
			}
			set, ok := cfg.SetMap()[uint(rec.ParamID)]
			if !ok {
				return fmt.Sprintf("the record names set %d", rec.ParamID)
			}
			if dg := set.Digest(pw, rec.Salt); dg == nil || string(dg) != string(rec.Digest) {
				return "the record does not verify the acknowledged password"
			}
			return ""
		}
		extOf := func(admin bool) string {
			if admin {
				return ".admin"
			}
			return ".user"
		}
		n := 1 + r.Choose("nops", 5)
		for i := 0; i < n; i++ {
			var c *Call
			users := sortedKeysA(model)
			if len(users) == 0 {
				c = &Call{Kind: "init", Via: "agent", Agent: a.idx, User: "root", PW: "initial-admin-password"}
			} else {
				u := users[r.Choose("user", len(users))]
				switch r.Choose("op", 5) {
				case 0:
					c = &Call{Kind: "add", Via: "agent", Agent: a.idx, User: fmt.Sprintf("new%d", i), PW: fmt.Sprintf("added-%d", i), Admin: r.Choose("admin", 2) == 1}
				case 1, 2:
					c = &Call{Kind: "update", Via: "agent", Agent: a.idx, User: u, PW: fmt.Sprintf("changed-%d", i)}
				case 3:
					c = &Call{Kind: "set-admin", Via: "agent", Agent: a.idx, User: u, Admin: !model[u].Admin}
				case 4:
					c = &Call{Kind: "remove", Via: "agent", Agent: a.idx, User: u}
				}
			}
			w.addClient([]*Call{c})
			if wedge := w.settle(nil); wedge != "" {
				r.FailOther("C10", wedgeSignature(wedge), "%s", wedge)
				return
			}
			r.Logf("#%d %s -> ok=%v err=%q", i, c, c.OK, c.Err)
			r.Nontrivial(fmt.Sprintf("%s|%v|%d|%v|%s", c.Kind, fresh, freshKind, c.OK, cfg.Desc()))
			if !c.OK {
				if c.Kind == "init" {
					return // nothing was acknowledged, and without a store nothing else can be
				}
				continue
			}
			switch c.Kind {
			case "init":
				model[c.User] = &AUser{PW: c.PW, Admin: true}
			case "add":
				model[c.User] = &AUser{PW: c.PW, Admin: c.Admin}
			case "update":
				model[c.User].PW = c.PW
			case "set-admin":
				model[c.User].Admin = c.Admin
			case "remove":
				delete(model, c.User)
			}
			r.Count("acknowledged-through-agent:" + c.Kind)
			for k := 0; k < limit; k++ {
				var desc []string
				img := w.fs.PowerLossImage(func(kind string, n int) int {
					v := r.Choose("image-"+kind, n)
					desc = append(desc, fmt.Sprintf("%s=%d/%d", kind, v, n))
					return v
				})
				r.Add("power-loss-images", 1)
				why := ""
				if m := model[c.User]; m != nil {
					why = verifies(img, c.User, extOf(m.Admin), m.PW)
					if _, other := img.Get(cfg.BaseDir + "/" + c.User + extOf(!m.Admin)); other && why == "" && c.Kind == "set-admin" {
						why = "the file with the previous extension is still there"
					}
				} else {
					for _, e := range []string{".user", ".admin"} {
						if _, ok := img.Get(cfg.BaseDir + "/" + c.User + e); ok {
							why = "the removed user's file " + c.User + e + " is back"
						}
					}
				}
				if why != "" {
					r.Fail("durability/"+c.Kind+"/acknowledged-by-agent-not-durable", "%s was acknowledged by the agent (fresh store=%v, base directory case %d); after power loss [%s]: %s", c, fresh, freshKind, strings.Join(desc, ","), why)
				}
				if len(desc) == 0 {
					break // nothing pending: there is only this one image
				}
			}
		}
		r.Steps += n
	})
}
