//go:build verif

package main

import (
	"encoding/base64"
	"time"
	"encoding/json"
	"fmt"
	"strings"
	"syscall"
	"unicode/utf8"

	lib "github.com/whawty/auth/store"
	"github.com/whawty/auth/zzverif/simfs"
	"github.com/whawty/auth/zzverif/simrt"
)

func init() { register("C04", propC04) }

var c04Passwords = []string{
	"plain-pw", "with:colon", ":leading", "trailing:", "a:b:c", "sp ace", " lead", "trail ", "tab\there", "quote\"q", "back\\slash", "uni-ü-ñ", "emoji-\U0001F600", " sep", "nul\x00in", "new\nline",
	"\xff\xfe-not-utf8", strings.Repeat("\x01", 250), strings.Repeat("\u00fc", 120), strings.Repeat("p", 255), strings.Repeat("p", 256), strings.Repeat("p", 257), "p", "UPPER", "upper", "%41", "&amp;", "{\"json\":1}", "-dash-first", "=eq", "a@b,c=d",
}

var c04Users = []string{"alice", "Bob", "a.user", "x.admin", "d@example.org", "e-f_g", "0", strings.Repeat("u", 249), "d", "alice@corp", "alice@corp@example.org"}

func propC04(r *Run) {
	inAgentBubble(r, func(w *AWorld) {
		cfg := twoSetConfig(r, "/srv/whawty/base")
		w.fs.PutDir(cfg.BaseDir, 0o700)
		def := cfg.SetMap()[cfg.Default]
		// swarm: hash upgrades off / local, with or without a password policy -- neither may ever
		// change what a frontend answers for given credentials
		upgMode := []string{"", "", "local"}[r.Choose("c04-upgrades", 3)]
		polType, polCond := "", ""
		if r.Choose("c04-policy", 3) == 0 {
			polType, polCond = "zxcvbn", "score >= 3"
		}
		stored := map[string]string{}
		nu := 2 + r.Choose("nusers", 4)
		for i := 0; i < nu; i++ {
			u := c04Users[r.Choose("user", len(c04Users))]
			if _, dup := stored[u]; dup {
				continue
			}
			pw := c04Passwords[r.Choose("stored-pw", len(c04Passwords))]
			set := def
			if r.Choose("c04-record-set", 2) == 1 {
				set = cfg.Sets[r.Choose("c04-which-set", len(cfg.Sets))] // possibly upgradeable
			}
			salt := make([]byte, set.SaltLen())
			salt[0] = byte(i + 1)
			ext := ".user"
			if i == 0 {
				ext = ".admin"
			}
			w.fs.Put(cfg.BaseDir+"/"+u+ext, []byte(RefWrite(set, pw, salt, 1000)+"\n"), 0o600)
			stored[u] = pw
		}
		// store states reached by preceding management operations: a few through the agent itself
		a, err := w.bootAgent(cfg, upgMode, polType, polCond, "")
		if err != nil {
			r.Fail("harness/boot", "%v", err)
		}
		w.startWeb(a)
		w.startSasl(a)
		w.startLDAP(a)
		if r.Choose("fragment-sasl", 2) == 1 {
			// the saslauthd socket delivers the client's bytes in scheduler-chosen fragments
			w.nw.ManualFor = func(target string) bool { return target == a.saslPath }
		}
		users := sortedKeysA(stored)
		for k, kN := 0, r.Choose("nmgmt", 3); k < kN; k++ {
			u := users[r.Choose("mgmt-user", len(users))]
			pw := c04Passwords[r.Choose("mgmt-pw", len(c04Passwords))]
			c := &Call{Kind: "update", Via: "agent", Agent: a.idx, User: u, PW: pw}
			w.addClient([]*Call{c})
			w.settle(nil)
			if c.OK {
				stored[u] = pw
			}
		}
		cfgPath := a.cfgPath
		nprobe := 3 + r.Choose("nprobes", 8)
		var trace []string
		lastProbed := users[0]
		prevStored := map[string]string{}
		for k := 0; k < nprobe; k++ {
			if k > 0 && r.Choose("change-between-probes", 4) == 0 {
				// a password change between two rounds of logins (possibly within the same second
				// as the previous write): the next round must see the new state on every frontend
				cu := users[r.Choose("mgmt-user", len(users))]
				npw := c04Passwords[r.Choose("mgmt-pw", len(c04Passwords))]
				c := &Call{Kind: "update", Via: "agent", Agent: a.idx, User: cu, PW: npw}
				w.addClient([]*Call{c})
				w.settle(nil)
				if c.OK {
					prevStored[cu] = stored[cu]
					stored[cu] = npw
				}
				r.Logf("#%d password of %s changed to %s -> ok=%v", k, simrt.Q(cu), simrt.Q(npw), c.OK)
			}
			u := users[r.Choose("probe-user", len(users))]
			if k > 0 && r.Choose("probe-same-user-again", 3) == 0 {
				u = lastProbed
			}
			lastProbed = u
			var pw string
			switch r.Choose("probe-pw-kind", 6) {
			case 5: // the password of a user whose name extends this one with '@...' (or the other way round)
				pw = stored[u]
				for _, o := range users {
					if o != u && (strings.HasPrefix(o, u+"@") || strings.HasPrefix(u, o+"@")) {
						pw = stored[o]
					}
				}
			case 4:
				pw = prevStored[u] // the password before the last change (the current one if there was none)
				if pw == "" {
					pw = stored[u]
				}
			case 0, 1:
				pw = stored[u]
			case 2:
				pw = c04Passwords[r.Choose("probe-pw", len(c04Passwords))]
			case 3: // a transformation a frontend might wrongly apply
				s := stored[u]
				pw = []string{strings.TrimSpace(s), strings.ToLower(s), strings.ToUpper(s), strings.SplitN(s, ":", 2)[0], strings.TrimRight(s, "\x00"), s + " ", strings.ToValidUTF8(s, "�"), latin1(s), utf8FromLatin1(s)}[r.Choose("transform", 9)]
				if len(s) > 256 {
					pw = s[:256]
				}
			}
			bindName := u
			if r.Choose("ldap-at", 3) == 0 {
				bindName = u + "@" + []string{"example.org", "a,b=c", "@@"}[r.Choose("ldap-suffix", 3)]
			}
			fault := r.Choose("read-fault", 6) == 0
			// reference verdict: a fresh store.Dir on the same directory
			d, derr := lib.NewDirFromConfig(cfgPath)
			if derr != nil {
				r.Fail("harness/config", "%v", derr)
			}
			want, _, _, _, _ := d.Authenticate(u, pw)
			if fault {
				want = false
				w.fs.Plan = func(seq int, kind, real string) *simfs.Fault {
					if strings.HasPrefix(real, cfg.BaseDir+"/"+u+".") && (kind == "open" || kind == "read" || kind == "stat") {
						return &simfs.Fault{Errno: []syscall.Errno{syscall.EIO, syscall.EMFILE, syscall.EACCES}[seq%3]}
					}
					return nil
				}
				r.Count("fault:read-error-during-probe")
			}
			type fe struct {
				via    string
				inDom  bool
				why    string
				user   string
				expect bool
			}
			wantLDAP := want
			if cut, _, _ := strings.Cut(bindName, "@"); cut != u {
				// LDAP: the store is asked for the bind name up to the first '@'
				wantLDAP, _, _, _, _ = d.Authenticate(cut, pw) // another user's file: the injected read fault does not touch it
			}
			fes := []fe{
				{"sasl", u != "" && pw != "" && len(u) <= 256 && len(pw) <= 256, "non-empty fields of at most 256 bytes", u, want},
				{"name-variant", u != "" && pw != "" && len(u) < 200 && len(pw) <= 256 && utf8.ValidString(pw) && !strings.Contains(u, ":"), "a user name that differs from an existing one only by control or look-alike bytes is another name: the store's verdict for exactly that name", u, false},
				{"sasl-realm", u != "" && pw != "" && len(u) <= 256 && len(pw) <= 256, "the realm field is not part of the user name: same verdict as without it", u, want},
				{"ldap", pw != "", "non-empty password; the reference is asked for the name up to the first '@'", bindName, wantLDAP},
				{"basic", !strings.Contains(u, ":") && u != "", "user without ':'", u, want},
				{"api", u != "" && pw != "" && utf8.ValidString(pw) && utf8.ValidString(u), "JSON carries Unicode strings; non-empty fields", u, want},
				{"api-incomplete", utf8.ValidString(u) && u != "", "a login body without a password (or without a user name) submits no credentials: deny", u, false},
				{"basic-no-credentials", true, "a request without (usable) basic-auth credentials submits nothing: deny", u, false},
				{"cli", u != "" && pw != "" && !strings.HasPrefix(pw, "-") && !strings.HasPrefix(u, "-") && !strings.Contains(pw, "\x00"), "non-empty NUL-free arguments not starting with '-'", u, want},
			}
			var verdicts []string
			for _, f := range fes {
				if !f.inDom {
					verdicts = append(verdicts, f.via+"=n/a")
					continue
				}
				got := false
				if f.via == "cli" {
					code := runCLI("--store", cfgPath, "authenticate", f.user, pw)
					got = code == 0
					if code != 0 && code != 1 && code != 3 {
						r.Fail("frontend/cli-exit-code", "CLI authenticate exits with %d", code)
					}
				} else {
					c := &Call{Kind: "authenticate", Via: f.via, Agent: a.idx, User: f.user, PW: pw}
					if f.via == "name-variant" {
						v := []string{u + "\n", u + "\x00", "\x7f" + u, u[:1] + "\x01" + u[1:], u + "\r", "\u200b" + u, u + "\t", strings.ToUpper(u[:1]) + u[1:] + "\x1b"}[k%8]
						c.User = v
						c.Via = []string{"sasl", "api", "basic", "ldap"}[(k/2)%4]
						refName := v
						if c.Via == "ldap" {
							refName, _, _ = strings.Cut(v, "@") // LDAP asks the store for the bind name up to the first '@'
						}
						f.expect, _, _, _, _ = d.Authenticate(refName, pw)
						f.via = "name-variant/" + c.Via
					}
					if f.via == "sasl-realm" {
						c.Via, c.Realm = "sasl", []string{"corp", "example.org", "corp@example.org"}[k%3]
					}
					if f.via == "basic-no-credentials" {
						c.Via = "basic"
						c.Raw = []string{"no-header", "Basic", "Basic !!!not-base64!!!", "Bearer " + base64.StdEncoding.EncodeToString([]byte(f.user+":"+stored[u])), "Basic " + base64.StdEncoding.EncodeToString([]byte(f.user)), "basic"}[k%6]
					}
					if f.via == "api-incomplete" {
						uj, _ := json.Marshal(f.user)
						c.Via = "api"
						c.Raw = []string{`{"username":%s}`, `{"username":%s,"password":null}`, `{"username":%s,"password":""}`, `{"password":null}`, `{}`}[k%5]
						c.Raw = strings.Replace(c.Raw, "%s", string(uj), 1)
					}
					w.addClient([]*Call{c})
					if wedge := w.settle(nil); wedge != "" {
						r.FailOther("C10", wedgeSignature(wedge), "%s", wedge)
						return
					}
					got = c.OK
				}
				verdicts = append(verdicts, fmt.Sprintf("%s=%v", f.via, got))
				if got != f.expect {
					sig := "frontend/accepts-what-store-denies/" + f.via
					if !got {
						sig = "frontend/denies-what-store-accepts/" + f.via
					}
					if fault {
						sig = "frontend/internal-error-not-denied/" + f.via
					}
					r.Fail(sig, "user %s password %s (stored %s) read-fault=%v: store verdict %v, %s frontend says %v (domain: %s)", simrt.Q(f.user), simrt.Q(pw), simrt.Q(stored[u]), fault, f.expect, f.via, got, f.why)
				}
				r.Count("frontend-probes")
			}
			w.fs.Plan = nil
			line := fmt.Sprintf("user=%s pw=%s store=%v fault=%v %v", simrt.Q(u), simrt.Q(pw), want, fault, verdicts)
			trace = append(trace, line)
			r.Logf("#%d %s", k, line)
			r.Nontrivial(fmt.Sprintf("%s|%s|%s|%v", u, pw, stored[u], fault))
		}
		// concurrent phase: several connections at once on all listeners, mixed right and wrong
		// credentials; the store is static, so every answer must be the reference verdict for
		// exactly the credentials that connection submitted
		d, derr := lib.NewDirFromConfig(cfgPath)
		if derr != nil {
			r.Fail("harness/config", "%v", derr)
		}
		type expect struct {
			c    *Call
			want bool
		}
		var exps []expect
		for i, iN := 0, 2+r.Choose("nconc", 6); i < iN; i++ {
			var plan []*Call
			for k, kN := 0, 1+r.Choose("nconc-calls", 2); k < kN; k++ {
				u := users[r.Choose("conc-user", len(users))]
				pw := stored[u]
				if r.Choose("conc-right", 2) == 0 {
					pw = c04Passwords[r.Choose("conc-pw", len(c04Passwords))]
				}
				via := []string{"agent", "sasl", "ldap", "basic", "api"}[r.Choose("conc-via", 5)]
				if pw == "" || len(pw) > 256 || len(u) > 256 || !utf8.ValidString(pw) || strings.Contains(u, ":") {
					via = "agent"
				}
				if via == "agent" && pw == "" {
					continue
				}
				c := &Call{Kind: "authenticate", Via: via, Agent: a.idx, User: u, PW: pw}
				ref := u
				if via == "ldap" {
					ref, _, _ = strings.Cut(u, "@") // LDAP: the bind name up to the first '@'
				}
				want, _, _, _, _ := d.Authenticate(ref, pw)
				exps = append(exps, expect{c, want})
				plan = append(plan, c)
			}
			if len(plan) > 0 {
				w.addClient(plan)
			}
		}
		// administrators promote and demote users meanwhile: the file is renamed, the password is
		// not touched, so every verdict stays what it was
		if r.Choose("conc-set-admin", 2) == 1 {
			for i, iN := 0, 1+r.Choose("conc-set-admin-clients", 2); i < iN; i++ {
				var plan []*Call
				for k, kN := 0, 2+r.Choose("conc-set-admin-calls", 4); k < kN; k++ {
					plan = append(plan, &Call{Kind: "set-admin", Via: "agent", Agent: a.idx, User: users[r.Choose("conc-set-admin-user", len(users))], Admin: r.Choose("conc-admin", 2) == 1})
				}
				w.addClient(plan)
			}
			if r.Choose("conc-fs-yields", 2) == 1 {
				w.fsYields()
			}
			r.Count("probe:logins-racing-set-admin")
		}
		if r.Choose("conc-net-yields", 3) == 0 {
			w.netYields()
		}
		lo := loopOpts{maxSteps: 3000, wClient: 3, wLoop: 3}
		if r.Choose("slow-hashing", 3) == 0 {
			// time passes while requests are queued or being hashed (a memory-hard hash takes
			// seconds under load): a verdict is still exactly the store's
			lo.wClock, lo.clockMenu = 1, []time.Duration{time.Second, 6 * time.Second, 30 * time.Second}
		}
		w.runLoop(lo)
		if wedge := w.drain(nil); wedge != "" {
			r.FailOther("C10", wedgeSignature(wedge), "%s", wedge)
			return
		}
		for _, e := range exps {
			if e.c.OK != e.want {
				r.Fail("frontend/concurrent-answer-mixed-up/"+e.c.Via, "with %d requests in flight, %s got ok=%v; the store's verdict for exactly these credentials is %v", len(exps), e.c, e.c.OK, e.want)
			}
		}
		r.Add("frontend-probes", len(exps))
		r.Steps += nprobe * 5
		r.Sample(map[string]any{"config": cfg.Desc(), "probes": trace[:min(len(trace), 6)]})
	})
}

// latin1 re-encodes a UTF-8 string as ISO-8859-1 bytes where possible (what an old browser
// sends for basic auth); utf8FromLatin1 is the opposite mistake.
func latin1(s string) string {
	var b []byte
	for _, r := range s {
		if r < 256 {
			b = append(b, byte(r))
		} else {
			b = append(b, '?')
		}
	}
	return string(b)
}

func utf8FromLatin1(s string) string {
	var rs []rune
	for i := 0; i < len(s); i++ {
		rs = append(rs, rune(s[i]))
	}
	return string(rs)
}
