//go:build verif

package main

import (
	"bytes"
	"crypto/aes"
	"crypto/cipher"
	"encoding/base64"
	"fmt"
	"strings"
	"testing/synctest"
	"time"

	"github.com/whawty/auth/zzverif/simrt"
)

func init() { register("C07", propC07) }

type issuedTok struct {
	text    string
	nonce   []byte
	ct      []byte
	user    string
	admin   bool
	at      time.Time
	factory int
}

func decodeTok(s string) (nonce, ct []byte, ok bool) {
	p := strings.SplitN(s, ":", 2)
	if len(p) != 2 {
		return nil, nil, false
	}
	n, e1 := base64.URLEncoding.DecodeString(p[0])
	c, e2 := base64.URLEncoding.DecodeString(p[1])
	if e1 != nil || e2 != nil {
		return nil, nil, false
	}
	return n, c, true
}

func propC07(r *Run) {
	if r.Choose("handler-level", 8) == 0 {
		propC07Handlers(r)
		return
	}
	inBubble(r, func(rr *randRecorder) {
		lifetimes := []time.Duration{2 * time.Second, 3 * time.Second, 600 * time.Second, time.Second}
		nf := 1 + r.Choose("nfactories", 2)
		var facs []*webSessionFactory
		var lts []time.Duration
		if r.Choose("listeners-start-together", 3) == 0 {
			// every web listener builds its factory in its own goroutine at start-up: the
			// constructions overlap, interleaved statement by statement
			nf = 2 + r.Choose("nfactories-together", 2)
			sched := simrt.NewSched()
			simrt.S = sched
			facs = make([]*webSessionFactory, nf)
			errs := make([]error, nf)
			for i := 0; i < nf; i++ {
				lts = append(lts, lifetimes[r.Choose("lifetime", len(lifetimes))])
				name := fmt.Sprintf("listener%d", i)
				go func() {
					sched.Register(name)
					simrt.Yield("start")
					facs[i], errs[i] = NewWebSessionFactory(lts[i])
				}()
			}
			for guard := 0; guard < 4000; guard++ {
				synctest.Wait()
				rs := sched.Runnable()
				if len(rs) == 0 {
					break
				}
				sched.Release(rs[r.Choose("start-who", len(rs))], nil)
			}
			simrt.S = nil
			for i := range facs {
				if facs[i] == nil || errs[i] != nil {
					r.Fail("harness/factory", "factory %d of %d built together: %v", i, nf, errs[i])
				}
			}
			// instance-bound from the first moment, and no key anybody could guess
			now := time.Now().Unix()
			zero, _ := aes.NewCipher(make([]byte, 16))
			zgcm, _ := cipher.NewGCM(zero)
			zn := make([]byte, zgcm.NonceSize())
			forged := base64.URLEncoding.EncodeToString(zn) + ":" + base64.URLEncoding.EncodeToString(zgcm.Seal(nil, zn, []byte(fmt.Sprintf("alice:true:%d", now)), nil))
			for i := range facs {
				if st, _, u, _ := facs[i].Check(forged); st == 200 {
					r.Fail("token/forged-accepted", "factory %d of %d built together accepts a token sealed with an all-zero key (as %s)", i, nf, simrt.Q(u))
				}
				st, _, text := facs[i].Generate("alice", true)
				if st != 200 {
					r.Fail("token/generate-failed", "factory %d of %d built together cannot issue: status %d", i, nf, st)
				}
				if st2, _, _, _ := facs[i].Check(text); st2 != 200 {
					r.Fail("token/valid-rejected", "factory %d of %d built together rejects its own fresh token with %d", i, nf, st2)
				}
				for j := range facs {
					if st3, _, u, _ := facs[j].Check(text); j != i && st3 == 200 {
						r.Fail("token/other-instance-accepted", "a token of factory %d opens on factory %d (as %s); both were built at the same time", i, j, simrt.Q(u))
					}
				}
			}
			r.Count("probe:factories-built-together")
		} else {
			for i := 0; i < nf; i++ {
				lt := lifetimes[r.Choose("lifetime", len(lifetimes))]
				f, err := NewWebSessionFactory(lt)
				if err != nil {
					r.Fail("harness/factory", "%v", err)
				}
				facs = append(facs, f)
				lts = append(lts, lt)
			}
		}
		users := []string{"alice", "bob", "a.user", "x.admin", "0", "d@example.org", "true", "false", strings.Repeat("n", 200), "carol@Example.ORG", "Dave@example.org", "e@x@Y"}
		var toks []issuedTok
		presented := 0
		// present checks one string against factory fi at the current fake time
		present := func(fi int, s string, what string) {
			presented++
			var status int
			var user string
			var admin bool
			func() {
				defer func() {
					if x := recover(); x != nil {
						r.Fail("token/check-panics", "%s: checking %s panics: %v", what, simrt.Q(s), x)
					}
				}()
				status, _, user, admin = facs[fi].Check(s)
			}()
			accepted := status == 200
			n, c, decodable := decodeTok(s)
			var match *issuedTok
			if decodable {
				for i := range toks {
					t := &toks[i]
					if t.factory == fi && bytes.Equal(t.nonce, n) && bytes.Equal(t.ct, c) {
						match = t
					}
				}
			}
			if accepted {
				if match == nil {
					r.Fail("token/forged-accepted", "%s: factory %d accepts %s whose decoded content is not that of any token it issued", what, fi, simrt.Q(s))
				}
				// issue stamps are whole seconds rounded DOWN, so the age the factory computes is never
				// smaller than the real age: an accepted token is really no older than the lifetime
				age := time.Since(match.at)
				if age > lts[fi] {
					r.Fail("token/expired-accepted", "%s: token issued %v ago accepted, lifetime %v", what, age, lts[fi])
				}
				if user != match.user || admin != match.admin {
					r.Fail("token/identity", "%s: token issued for (%s,%v) opens as (%s,%v)", what, match.user, match.admin, user, admin)
				}
				return
			}
			if match != nil && time.Since(match.at) <= lts[fi]-time.Second {
				r.Fail("token/valid-rejected", "%s: token issued %v ago for %s by this factory (lifetime %v) rejected with status %d", what, time.Since(match.at), match.user, lts[fi], status)
			}
		}
		nonces := map[string]bool{}
		issue := func(fi int) {
			u := users[r.Choose("tok-user", len(users))]
			adm := r.Choose("tok-admin", 2) == 1
			seg0 := len(rr.Segs)
			status, errStr, s := facs[fi].Generate(u, adm)
			if status != 200 {
				r.Fail("harness/generate", "%d %s", status, errStr)
			}
			n, c, ok := decodeTok(s)
			if !ok || len(n) != 12 {
				r.Fail("token/format", "issued token %s is not nonce ':' ciphertext in base64url", simrt.Q(s))
			}
			if nonces[string(n)] {
				r.Fail("token/nonce-reused", "nonce %x used by two tokens", n)
			}
			nonces[string(n)] = true
			fresh := false
			for _, sg := range rr.Segs[seg0:] {
				if bytes.Equal(sg.B, n) {
					fresh = true
				}
			}
			if !fresh {
				r.Fail("token/nonce-not-random", "nonce %x was not drawn from the random source for this token", n)
			}
			toks = append(toks, issuedTok{s, n, c, u, adm, time.Now(), fi})
			r.Logf("t=%v factory %d issues token for (%s,%v)", time.Now().Unix(), fi, simrt.Q(u), adm)
		}
		nsteps := 4 + r.Choose("nsteps", 10)
		for st := 0; st < nsteps; st++ {
			fi := r.Choose("factory", nf)
			switch r.Choose("action", 9) {
			case 0, 1:
				issue(fi)
			case 2: // clock, around the lifetimes
				d := []time.Duration{300 * time.Millisecond, time.Second, lts[fi] - 2*time.Second, lts[fi] - time.Second, lts[fi], lts[fi] + time.Second, lts[fi] + 2*time.Second, 700 * time.Millisecond}[r.Choose("clock", 8)]
				if d > 0 {
					time.Sleep(d)
					r.Logf("clock +%v", d)
				}
			case 3: // every issued token against every factory (instance binding, expiry)
				for i := range toks {
					for f2 := 0; f2 < nf; f2++ {
						present(f2, toks[i].text, fmt.Sprintf("token #%d (factory %d, age %v)", i, toks[i].factory, time.Since(toks[i].at)))
					}
				}
			case 4: // every single-bit flip of the decoded content of one token
				if len(toks) == 0 {
					continue
				}
				t := toks[r.Choose("which-token", len(toks))]
				if t.factory < 0 {
					continue
				}
				raw := append(append([]byte(nil), t.nonce...), t.ct...)
				for i := 0; i < len(raw)*8; i++ {
					m := append([]byte(nil), raw...)
					m[i/8] ^= 1 << (i % 8)
					s := base64.URLEncoding.EncodeToString(m[:12]) + ":" + base64.URLEncoding.EncodeToString(m[12:])
					present(t.factory, s, fmt.Sprintf("bit %d flipped", i))
				}
				r.Count("fault:bit-flip-sweep")
			case 5: // every single-character change of the text
				if len(toks) == 0 {
					continue
				}
				t := toks[r.Choose("which-token", len(toks))]
				if t.factory < 0 {
					continue
				}
				for i := 0; i < len(t.text); i++ {
					for _, ch := range []byte{'A', 'z', '0', '_', '-', '=', ':', '+', '/', ' '} {
						if t.text[i] == ch {
							continue
						}
						b := []byte(t.text)
						b[i] = ch
						present(t.factory, string(b), fmt.Sprintf("character %d replaced by %q", i, ch))
					}
				}
				r.Count("fault:char-change-sweep")
			case 6: // splices and truncations
				if len(toks) == 0 {
					continue
				}
				for i := range toks {
					for j := range toks {
						if i != j && toks[i].factory >= 0 {
							a, b := strings.SplitN(toks[i].text, ":", 2), strings.SplitN(toks[j].text, ":", 2)
							present(toks[i].factory, a[0]+":"+b[1], fmt.Sprintf("nonce of #%d with ciphertext of #%d", i, j))
						}
					}
				}
				t := toks[r.Choose("which-token", len(toks))]
				if t.factory < 0 {
					continue
				}
				for k := 0; k < len(t.text); k++ {
					present(t.factory, t.text[:k], fmt.Sprintf("prefix of %d chars", k))
					present(t.factory, t.text[k+1:], fmt.Sprintf("suffix from %d", k+1))
				}
				for _, s := range []string{"", ":", "a:b", "::", t.text + "A", t.text + "=", "A" + t.text, t.text + ":" + t.text, strings.Repeat("A", 16) + ":" + strings.Repeat("A", 40)} {
					present(t.factory, s, "arbitrary text")
				}
				// the issued nonce followed by further bytes, ciphertext untouched (and the reverse)
				for _, extra := range [][]byte{{0}, {0xff}, []byte("AAAA"), t.nonce, make([]byte, 12)} {
					present(t.factory, base64.URLEncoding.EncodeToString(append(append([]byte(nil), t.nonce...), extra...))+":"+base64.URLEncoding.EncodeToString(t.ct), fmt.Sprintf("nonce extended by %d bytes", len(extra)))
					present(t.factory, base64.URLEncoding.EncodeToString(append(append([]byte(nil), extra...), t.nonce...))+":"+base64.URLEncoding.EncodeToString(t.ct), fmt.Sprintf("nonce prefixed by %d bytes", len(extra)))
					present(t.factory, base64.URLEncoding.EncodeToString(t.nonce)+":"+base64.URLEncoding.EncodeToString(append(append([]byte(nil), t.ct...), extra...)), fmt.Sprintf("ciphertext extended by %d bytes", len(extra)))
				}
				// text that is not base64 appended to / inserted into either part (a decoder that stops
				// at the first bad character still has the issued bytes in hand)
				{
					parts := strings.SplitN(t.text, ":", 2)
					for _, junk := range []string{"!", "!junk", "=", "=A", "*", " ", "\n", "%3D", ".AAAA", "\x00"} {
						present(t.factory, parts[0]+junk+":"+parts[1], fmt.Sprintf("junk %q after the nonce text", junk))
						present(t.factory, parts[0]+":"+parts[1]+junk, fmt.Sprintf("junk %q after the ciphertext text", junk))
						present(t.factory, junk+parts[0]+":"+parts[1], fmt.Sprintf("junk %q before the nonce text", junk))
					}
				}
				// the same bytes, split differently between the two parts (canonically re-encoded)
				all := append(append([]byte(nil), t.nonce...), t.ct...)
				for k := 0; k <= len(all); k++ {
					if k != len(t.nonce) {
						present(t.factory, base64.URLEncoding.EncodeToString(all[:k])+":"+base64.URLEncoding.EncodeToString(all[k:]), fmt.Sprintf("nonce||ciphertext re-split at %d", k))
					}
				}
				r.Count("fault:splice-truncate-sweep")
			case 7: // tokens sealed with the factory's own AEAD but with unacceptable plaintext
				f := facs[fi]
				now := time.Now().Unix()
				for _, pt := range []string{
					fmt.Sprintf("alice:true:%d", now+1), fmt.Sprintf("alice:true:%d", now+2), fmt.Sprintf("alice:true:%d", now+100000), fmt.Sprintf("alice:true:%d", now-int64(lts[fi]/time.Second)-2),
					fmt.Sprintf("alice:TRUE:%d", now), fmt.Sprintf("alice:1:%d", now), fmt.Sprintf("alice:true:%dx", now), fmt.Sprintf("alice:true: %d", now),
					fmt.Sprintf("alice:true"), "alice", "", fmt.Sprintf("alice:true:%d:extra", now), "alice:true:99999999999999999999", "alice:true:-5", fmt.Sprintf(":true:%d", now),
					// issue times whose distance from now is a multiple of a large power of two (an age
					// computed in wrapping nanosecond arithmetic would come out as zero), and the extremes
					fmt.Sprintf("alice:true:%d", now+(1<<55)), fmt.Sprintf("alice:true:%d", now-(1<<55)), fmt.Sprintf("alice:true:%d", now+(1<<56)), fmt.Sprintf("alice:true:%d", now-(3<<55)),
					fmt.Sprintf("alice:true:%d", now+(1<<34)), fmt.Sprintf("alice:true:%d", now-(1<<34)), fmt.Sprintf("alice:true:%d", now+(1<<32)), fmt.Sprintf("alice:true:%d", now-(1<<32)),
					"alice:true:9223372036854775807", "alice:true:-9223372036854775808", fmt.Sprintf("alice:true:%d", now+(1<<62)),
				} {
					st, _, nonce, enc := f.sealToken(pt)
					if st != 200 {
						continue
					}
					s := base64.URLEncoding.EncodeToString(nonce) + ":" + base64.URLEncoding.EncodeToString(enc)
					status, _, user, _ := f.Check(s)
					presented++
					if status == 200 && !(strings.HasPrefix(pt, ":true:") && user == "") {
						r.Fail("token/bad-plaintext-accepted", "a token whose (authentic) plaintext is %s is accepted at t=%d (lifetime %v)", simrt.Q(pt), now, lts[fi])
					}
					if status == 200 && strings.HasPrefix(pt, ":true:") {
						r.Count("probe:empty-user-token-accepted") // never issued by the API (empty user names are refused earlier)
					}
				}
				r.Count("fault:future-and-malformed-plaintext")
			case 8: // restart: a new factory replaces this one (new key); its old tokens must die
				f, err := NewWebSessionFactory(lts[fi])
				if err != nil {
					r.Fail("harness/factory", "%v", err)
				}
				facs[fi] = f
				for i := range toks {
					if toks[i].factory == fi {
						toks[i].factory = -1 - fi // issued before the restart
					}
				}
				for i := range toks {
					present(fi, toks[i].text, fmt.Sprintf("token #%d from before the restart / another instance", i))
				}
				r.Count("fault:restart-new-key")
				r.Logf("factory %d restarted", fi)
			}
		}
		// concurrent checks on one factory (HTTP handlers share it): two or three goroutines run
		// Check at the same time; statement boundaries in web_session.go are scheduling points, the
		// tape decides who advances. Every result must be what the token alone determines.
		if len(toks) >= 2 && r.Choose("concurrent-checks", 2) == 1 {
			sched := simrt.NewSched()
			simrt.S = sched
			type job struct {
				t      issuedTok
				status int
				user   string
				admin  bool
				done   bool
				pan    any
			}
			var jobs []*job
			for i, iN := 0, 2+r.Choose("nconc", 2); i < iN; i++ {
				t := toks[r.Choose("conc-token", len(toks))]
				if t.factory < 0 {
					continue
				}
				j := &job{t: t}
				jobs = append(jobs, j)
				name := fmt.Sprintf("checker%d", i)
				go func() {
					sched.Register(name)
					simrt.Yield("start")
					defer func() { j.pan = recover(); j.done = true }()
					j.status, _, j.user, j.admin = facs[j.t.factory].Check(j.t.text)
				}()
			}
			for guard := 0; guard < 4000; guard++ {
				synctest.Wait()
				rs := sched.Runnable()
				if len(rs) == 0 {
					break
				}
				sched.Release(rs[r.Choose("conc-who", len(rs))], nil)
			}
			simrt.S = nil
			for _, j := range jobs {
				presented++
				if !j.done || j.pan != nil {
					r.Fail("token/check-panics", "concurrent Check of a token did not complete: %v", j.pan)
				}
				age := time.Since(j.t.at)
				if j.status == 200 {
					if j.user != j.t.user || j.admin != j.t.admin {
						r.Fail("token/identity-under-concurrency", "with %d checks in flight a token issued for (%s,%v) opened as (%s,%v)", len(jobs), j.t.user, j.t.admin, j.user, j.admin)
					}
					if age > lts[j.t.factory] {
						r.Fail("token/expired-accepted-under-concurrency", "with %d checks in flight a token issued %v ago was accepted (lifetime %v)", len(jobs), age, lts[j.t.factory])
					}
				} else if age <= lts[j.t.factory]-time.Second {
					r.Fail("token/valid-rejected-under-concurrency", "with %d checks in flight a valid token (age %v, lifetime %v) was rejected with %d", len(jobs), age, lts[j.t.factory], j.status)
				}
			}
			r.Count("probe:concurrent-check-rounds")
		}
		// concurrent issuance (parallel logins on one listener): no two tokens of a factory share a
		// nonce, and every token opens as the user it was issued for
		if r.Choose("concurrent-issuance", 2) == 1 {
			sched := simrt.NewSched()
			simrt.S = sched
			type gjob struct {
				user  string
				admin bool
				fi    int
				text  string
				st    int
				done  bool
				pan   any
			}
			var gjobs []*gjob
			for i, iN := 0, 2+r.Choose("ngen", 3); i < iN; i++ {
				j := &gjob{user: users[r.Choose("gen-user", len(users))], admin: r.Choose("gen-admin", 2) == 1, fi: r.Choose("gen-factory", nf)}
				gjobs = append(gjobs, j)
				name := fmt.Sprintf("issuer%d", i)
				go func() {
					sched.Register(name)
					simrt.Yield("start")
					defer func() { j.pan = recover(); j.done = true }()
					j.st, _, j.text = facs[j.fi].Generate(j.user, j.admin)
				}()
			}
			for guard := 0; guard < 4000; guard++ {
				synctest.Wait()
				rs := sched.Runnable()
				if len(rs) == 0 {
					break
				}
				sched.Release(rs[r.Choose("gen-who", len(rs))], nil)
			}
			simrt.S = nil
			seen := map[string]string{}
			for _, t := range toks {
				if t.factory >= 0 {
					seen[fmt.Sprint(t.factory)+"/"+string(t.nonce)] = "an earlier token for " + t.user
				}
			}
			for _, j := range gjobs {
				if !j.done || j.pan != nil || j.st != 200 {
					r.Fail("token/generate-failed", "concurrent Generate for %s did not produce a token: status %d panic %v", j.user, j.st, j.pan)
				}
				n, _, ok := decodeTok(j.text)
				if !ok {
					r.Fail("token/generate-failed", "concurrent Generate produced an undecodable token %s", simrt.Q(j.text))
				}
				k := fmt.Sprint(j.fi) + "/" + string(n)
				if prev, dup := seen[k]; dup {
					r.Fail("token/nonce-reused", "factory %d used nonce %x for the token of %s and for %s (tokens issued concurrently)", j.fi, n, j.user, prev)
				}
				seen[k] = "the concurrently issued token for " + j.user
				st, _, u, a := facs[j.fi].Check(j.text)
				presented++
				if st != 200 || u != j.user || a != j.admin {
					r.Fail("token/identity-under-concurrency", "a token issued concurrently for (%s,%v) opens as status %d (%s,%v)", j.user, j.admin, st, u, a)
				}
			}
			r.Count("probe:concurrent-issuance-rounds")
		}
		r.Add("evaluations", presented)
		r.Steps += presented
		r.Nontrivial(fmt.Sprintf("%v|%d|%d", r.T.Values()[:min(len(r.T.Values()), 40)], len(toks), presented))
		r.Sample(map[string]any{"factories": nf, "lifetimes": fmt.Sprint(lts), "tokens_issued": len(toks), "strings_presented": presented})
	})
}
