//go:build verif

package main

import (
	"encoding/base64"
	"fmt"
	"runtime/debug"
	"sort"
	"strings"
	"syscall"

	lib "github.com/whawty/auth/store"
	"github.com/whawty/auth/zzverif/simfs"
	"github.com/whawty/auth/zzverif/simsignal"
)

func init() { register("C18", propC18) }

// yamlDoc is a store configuration as text fragments, so that named mutations can be
// applied and the verdict is known by construction.
type ySet struct {
	id     string
	algos  []string // blocks, each "scryptauth:\n ..." or "argon2id:\n ..."
	extra  string   // extra lines inside the set mapping
	usable bool     // hashing with this set works (no error expected)
	errOK  bool     // the loader accepts it but hashing may fail with an error (never crash)
}

type yDoc struct {
	basedir   string // full line or ""
	deflt     string
	sets      []ySet
	top       string // extra top-level lines
	noParams  bool
	valid     bool
	why       string
	defaultID uint
}

func (d yDoc) text() string {
	var b strings.Builder
	b.WriteString(d.basedir)
	b.WriteString(d.deflt)
	if !d.noParams {
		b.WriteString("params:\n")
		for _, s := range d.sets {
			b.WriteString("  - " + s.id)
			for _, a := range s.algos {
				b.WriteString(a)
			}
			b.WriteString(s.extra)
		}
	}
	b.WriteString(d.top)
	return b.String()
}

func scryptBlock(key string, cost int, extra string) string {
	return fmt.Sprintf("    scryptauth:\n      hmackey: %q\n      cost: %d\n%s", key, cost, extra)
}

func argonBlock(t, m, p, l string) string {
	s := "    argon2id:\n"
	for _, kv := range [][2]string{{"time", t}, {"memory", m}, {"threads", p}, {"length", l}} {
		if kv[1] != "" {
			s += fmt.Sprintf("      %s: %s\n", kv[0], kv[1])
		}
	}
	return s
}

var goodKey = base64.StdEncoding.EncodeToString(keyN(1))

// genDoc builds a valid document and applies 0..2 named mutations.
func genDoc(r *Run, base string) yDoc {
	d := yDoc{basedir: fmt.Sprintf("basedir: %q\n", base), valid: true}
	n := 1 + r.Choose("nsets", 3)
	ids := []int{1, 2, 7, 4294967295}
	for i := 0; i < n; i++ {
		s := ySet{id: fmt.Sprintf("id: %d\n", ids[i]), usable: true}
		if r.Choose("algo", 2) == 0 {
			s.algos = []string{scryptBlock(goodKey, 1+r.Choose("cost", 4), []string{"", "      r: 1\n", "      p: 2\n      r: 2\n"}[r.Choose("rp", 3)])}
		} else {
			s.algos = []string{argonBlock(fmt.Sprint(1+r.Choose("time", 2)), []string{"8", "16", "64"}[r.Choose("mem", 3)], fmt.Sprint(1+r.Choose("thr", 2)), []string{"32", "16", "64"}[r.Choose("len", 3)])}
		}
		d.sets = append(d.sets, s)
	}
	di := r.Choose("default", n)
	d.defaultID = uint(ids[di])
	d.deflt = fmt.Sprintf("default: %d\n", ids[di])
	// at most one document-level and one set-level mutation, so that mutations never mask each other
	docLevel := map[int]bool{0: true, 1: true, 2: true, 3: true, 4: true, 5: true, 11: true, 27: true}
	var muts []int
	if r.Choose("mutate-doc", 3) == 0 {
		muts = append(muts, []int{0, 1, 2, 3, 4, 5, 11, 27}[r.Choose("doc-mutation", 8)])
	}
	if r.Choose("mutate-set", 2) == 0 {
		m := r.Choose("set-mutation", 30)
		if !docLevel[m] {
			muts = append(muts, m)
		}
	}
	for _, mut := range muts {
		if n == 0 {
			break
		}
		si := r.Choose("mut-set", n)
		invalid := func(why string) { d.valid = false; d.why += why + "; " }
		switch mut {
		case 0:
			d.basedir = ""
			invalid("basedir missing")
		case 1:
			d.basedir = "basedir: \"\"\n"
			invalid("basedir empty")
		case 2:
			d.deflt = ""
			invalid("default missing but sets defined")
		case 3:
			d.deflt = "default: 99\n"
			invalid("default names an undefined set")
		case 4:
			d.deflt = "default: 0\n"
			invalid("default 0 with sets defined")
		case 5:
			d.noParams, d.deflt, d.sets = true, "", nil
			d.defaultID = 0
			d.why += "no sets at all (valid); "
			n = 0
		case 6:
			d.sets[si].id = "id: 0\n"
			invalid("parameter-set id 0")
		case 7:
			d.sets[si].id = "id: -1\n"
			invalid("negative id")
		case 8:
			d.sets[si].id = "id: abc\n"
			invalid("id not a number")
		case 9:
			d.sets[si].algos = nil
			d.sets[si].extra = "    {}\n"
			d.sets[si].id = strings.TrimSuffix(d.sets[si].id, "\n") + "\n"
			d.sets[si].extra = ""
			invalid("set without algorithm")
		case 10:
			d.sets[si].algos = []string{scryptBlock(goodKey, 2, ""), argonBlock("1", "8", "1", "32")}
			invalid("two algorithms in one set")
		case 11:
			d.top += "unknown: 1\n"
			invalid("unknown top-level key")
		case 12:
			d.sets[si].extra += "    comment: hello\n"
			invalid("unknown key in a set")
		case 13:
			d.sets[si].algos = []string{scryptBlock(goodKey, 2, "      rounds: 3\n")}
			invalid("unknown key in scryptauth")
		case 14:
			d.sets[si].algos = []string{argonBlock("1", "8", "1", "32") + "      salt: 16\n"}
			invalid("unknown key in argon2id")
		case 15:
			d.sets[si].algos = []string{scryptBlock("bm90IDMyIGJ5dGVz", 2, "")}
			invalid("hmac key of wrong length")
		case 16:
			d.sets[si].algos = []string{scryptBlock("***", 2, "")}
			invalid("hmac key not base64")
		case 17:
			d.sets[si].algos = []string{"    scryptauth:\n      cost: 2\n"}
			invalid("hmac key missing")
		case 18:
			d.sets[si].algos = []string{scryptBlock(goodKey, 32, "")}
			invalid("scrypt cost out of range")
		case 19:
			d.sets[si].algos = []string{scryptBlock(goodKey, 0, "")}
			d.sets[si].usable, d.sets[si].errOK = false, true // N = 1: scrypt refuses with an error
		case 20:
			d.sets[si].algos = []string{"    scryptauth:\n      hmackey: \"" + goodKey + "\"\n      cost: x\n"}
			invalid("cost not a number")
		case 21:
			d.sets[si].algos = []string{argonBlock("0", "8", "1", "32")}
			d.sets[si].usable, d.sets[si].errOK = false, true // accepted or refused; must never crash
			d.why += "argon2id time 0; "
		case 22:
			d.sets[si].algos = []string{argonBlock("1", "8", "0", "32")}
			d.sets[si].usable, d.sets[si].errOK = false, true
			d.why += "argon2id threads 0; "
		case 23:
			d.sets[si].algos = []string{argonBlock("1", "8", "1", "")}
			d.sets[si].usable, d.sets[si].errOK = false, true
			d.why += "argon2id length omitted; "
		case 24:
			d.sets[si].algos = []string{argonBlock("1", "0", "1", "32")}
			d.sets[si].errOK = true
			d.why += "argon2id memory 0; "
		case 25:
			d.sets[si].algos = []string{argonBlock("1", "8", "256", "32")}
			invalid("threads does not fit uint8")
		case 26:
			d.sets[si].algos = []string{argonBlock("-1", "8", "1", "32")}
			invalid("negative time")
		case 27:
			d.top += d.basedir // duplicate key
			invalid("duplicate basedir key")
		case 28:
			d.sets[si].algos = []string{"    argon2id: 5\n"}
			invalid("argon2id is not a mapping")
		case 29:
			d.sets[si].algos = []string{argonBlock("1", "8", "1", "1")}
			d.sets[si].errOK = true
			d.why += "argon2id length 1; "
		}
	}
	// "accept either" cells: a mutation that makes the default's set unusable is still a valid document
	return d
}

// refDirCheck: the C16 sentence for directories this property generates.
type dirKind int

const (
	dirValid dirKind = iota
	dirNoAdmin
	dirForeignFile
	dirMissing
)

func (w *AWorld) makeDir(kind dirKind, base string, def PSet) {
	if kind == dirMissing {
		return
	}
	w.fs.PutDir(base, 0o700)
	salt := make([]byte, def.SaltLen())
	w.fs.Put(base+"/dana.user", []byte(RefWrite(def, "dana-pw", salt, 1000)+"\n"), 0o600)
	if kind != dirNoAdmin {
		w.fs.Put(base+"/root.admin", []byte(RefWrite(def, "root-pw-"+base, salt, 1000)+"\n"), 0o600)
	}
	if kind == dirForeignFile {
		w.fs.Put(base+"/notes.txt", []byte("x"), 0o600)
	}
}

func dirTriple(d *lib.Dir) string {
	var ids []uint64
	for id, h := range d.Params {
		_ = h
		ids = append(ids, uint64(id))
	}
	sort.Slice(ids, func(i, j int) bool { return ids[i] < ids[j] })
	return fmt.Sprintf("base=%s default=%d sets=%v", d.BaseDir, d.Default, ids)
}

func propC18(r *Run) {
	inAgentBubble(r, func(w *AWorld) {
		// ---- (a) loader exactness and usability of every accepted set (library level) ----
		if r.Choose("odd-basedir", 4) == 0 {
			// base directories that are ordinary non-empty strings to the loader but would mean something
			// else to a shell, a template engine or a path cleaner: the configuration is well-formed, and
			// whatever the loader makes of the string, the store it returns has a base directory
			odd := []string{"${STATE_DIRECTORY}", "$WHAWTY_UNSET", "${A}${B}", "$", "~", " ", "%s", "{{.Base}}", "\\x00"}[r.Choose("odd-basedir-kind", 9)]
			path := "/etc/whawty/probe-odd.yaml"
			text := fmt.Sprintf("basedir: %q\n", odd)
			w.fs.Put(path, []byte(text), 0o600)
			var d *lib.Dir
			var err error
			func() {
				defer func() {
					if x := recover(); x != nil {
						r.Fail("loader/crash", "NewDirFromConfig panicked on:\n%s\n%v", text, x)
					}
				}()
				d, err = lib.NewDirFromConfig(path)
			}()
			r.Logf("odd base directory %q -> err=%v", odd, err)
			r.Count("probe:odd-base-directory")
			if err != nil {
				r.Fail("loader/rejects-valid", "well-formed configuration rejected: %v\n%s", err, text)
			} else if d == nil || d.BaseDir == "" {
				r.Fail("loader/accepts-empty-basedir", "the loader accepted a configuration and returned a store with an empty base directory (every record would be resolved against the working directory):\n%s", text)
			}
		}
		nd := 1 + r.Choose("ndocs", 3)
		for k := 0; k < nd; k++ {
			doc := genDoc(r, "/srv/whawty/probe")
			path := fmt.Sprintf("/etc/whawty/probe%d.yaml", k)
			text := doc.text()
			if r.Choose("long-file", 6) == 0 {
				// a configuration file longer than any read buffer: comments in front of, or after,
				// the document change nothing about what it says
				pad := strings.Repeat("# "+strings.Repeat("x", 78)+"\n", 60+r.Choose("pad-lines", 60))
				if r.Choose("pad-where", 2) == 0 {
					text = pad + text
				} else {
					text = text + pad
				}
				r.Count("probe:configuration-files-over-4KiB")
			}
			w.fs.Put(path, []byte(text), 0o600)
			var d *lib.Dir
			var err error
			func() {
				defer func() {
					if x := recover(); x != nil {
						r.Fail("loader/crash", "NewDirFromConfig panicked on:\n%s\n%v", text, x)
					}
				}()
				d, err = lib.NewDirFromConfig(path)
			}()
			r.Logf("doc %d valid=%v (%s) -> err=%v", k, doc.valid, doc.why, err)
			r.Nontrivial(text)
			r.Count("configs-loaded")
			if doc.valid && err != nil {
				// argon2 edge values may be refused by a loader that validates them: accepted either way
				edge := false
				for _, s := range doc.sets {
					if s.errOK || !s.usable {
						edge = true
					}
				}
				if !edge {
					r.Fail("loader/rejects-valid", "well-formed configuration rejected: %v\n%s", err, text)
				}
			}
			if !doc.valid && err == nil {
				r.Fail("loader/accepts-invalid", "configuration accepted although: %s\n%s", doc.why, text)
			}
			if err != nil || d == nil {
				continue
			}
			// every accepted set either hashes and verifies or fails with an error
			w.fs.PutDir("/srv/whawty/probe", 0o700)
			ids := []int{}
			for id := range d.Params {
				ids = append(ids, int(id))
			}
			sort.Ints(ids)
			for _, id := range ids {
				d.Default = uint(id)
				u := fmt.Sprintf("u%d.%d", k, id)
				var aerr error
				var ok bool
				func() {
					defer func() {
						if x := recover(); x != nil {
							r.Fail("param-set/crash", "parameter set %d of an ACCEPTED configuration crashes when used (in the agent this kills the dispatcher, i.e. the process): %v\nconfiguration:\n%s\nin: %s", id, x, text, firstRepoFrames(string(debug.Stack())))
						}
					}()
					aerr = d.AddUser(u, "probe-password", false)
					if aerr == nil {
						ok, _, _, _, _ = d.Authenticate(u, "probe-password")
					}
				}()
				if aerr == nil && !ok {
					r.Fail("param-set/does-not-verify", "parameter set %d hashed a password that then does not verify", id)
				}
				usable := true
				for i, s := range doc.sets {
					if strings.TrimSpace(s.id) == fmt.Sprintf("id: %d", id) && !doc.sets[i].usable {
						usable = false
					}
				}
				if aerr != nil && usable {
					// sets with ordinary parameters must work
					edge := false
					for _, s := range doc.sets {
						if strings.TrimSpace(s.id) == fmt.Sprintf("id: %d", id) && s.errOK {
							edge = true
						}
					}
					if !edge {
						r.Fail("param-set/unusable", "parameter set %d with ordinary parameters fails: %v\n%s", id, aerr, text)
					}
				}
				r.Count("parameter-sets-exercised")
			}
		}

		// ---- (b) reload is all-or-nothing ----
		cfgA := GenConfig(r, "/srv/whawty/A")
		w.makeDir(dirValid, cfgA.BaseDir, cfgA.SetMap()[cfgA.Default])
		// the reload path also talks to the upgrade queue and to the hooks runner: all modes
		upgMode := []string{"", "local"}[r.Choose("reload-upgrade-mode", 2)]
		hooksDir := ""
		if r.Choose("reload-with-hooks", 2) == 1 {
			hooksDir = "/etc/whawty/hooks"
			w.hooksSetup(hooksDir)
		}
		a, err := w.bootAgent(cfgA, upgMode, "", "", hooksDir)
		if err != nil {
			r.Fail("harness/boot", "%v", err)
		}
		oldTriple := dirTriple(a.st.dir)
		cur := cfgA
		nreload := 1 + r.Choose("nreloads", 3)
		// background clients
		for i, iN := 0, 1+r.Choose("nclients", 3); i < iN; i++ {
			var plan []*Call
			for k, kN := 0, 2+r.Choose("ncalls", 4); k < kN; k++ {
				c := &Call{Agent: a.idx, Via: "agent", User: "dana", Kind: "authenticate", PW: "dana-pw"}
				switch r.Choose("bg-kind", 4) {
				case 0:
					c = &Call{Agent: a.idx, Via: "agent", User: "root", Kind: "list"}
				case 3:
					// a password change to the same password: whichever directory is in force when it is
					// dispatched, later logins with "dana-pw" stay right
					c = &Call{Agent: a.idx, Via: "agent", User: "dana", Kind: "update", PW: "dana-pw"}
				}
				plan = append(plan, c)
			}
			w.addClient(plan)
		}
		type pending struct {
			expectNew bool
			newCfg    Config
			torn      bool
			text      string
			desc      string
			dirOnly   bool // refused only because of the directory: repairable without touching the file
			kind      dirKind
		}
		var pend *pending
		issued := 0
		// a reload refused only because of the new directory can be retried after the operator
		// has repaired the directory - the configuration file is not touched again
		var repairable *pending
		var repairKind dirKind
		extra := func() []action {
			if pend != nil {
				return nil
			}
			if repairable != nil {
				rp, rk := repairable, repairKind
				return []action{{3, "repair the refused directory and SIGHUP again (configuration file untouched)", func() {
					repairable = nil
					nb := rp.newCfg.BaseDir
					switch rk {
					case dirNoAdmin:
						def := rp.newCfg.SetMap()[rp.newCfg.Default]
						w.fs.Put(nb+"/root.admin", []byte(RefWrite(def, "root-pw-"+nb, make([]byte, def.SaltLen()), 1000)+"\n"), 0o600)
					case dirForeignFile:
						w.fs.Delete(nb + "/notes.txt")
					case dirMissing:
						w.makeDir(dirValid, nb, rp.newCfg.SetMap()[rp.newCfg.Default])
					}
					simsignal.Raise(syscall.SIGHUP, -1)
					r.Count("fault:sighup")
					r.Count("probe:reload-retried-after-directory-repair")
					pend = &pending{newCfg: rp.newCfg, expectNew: true, text: rp.text, desc: "same configuration file as the refused reload (" + rp.newCfg.Desc() + "), directory repaired"}
					r.Logf("  reload retry: %s", pend.desc)
				}}}
			}
			if issued >= nreload {
				return nil
			}
			return []action{{3, "rewrite the configuration and SIGHUP", func() {
				issued++
				nb := fmt.Sprintf("/srv/whawty/B%d", issued)
				newCfg := GenConfig(r, nb)
				kind := []dirKind{dirValid, dirValid, dirNoAdmin, dirForeignFile, dirMissing}[r.Choose("new-dir", 5)]
				if cur.BaseDir != "" && len(cur.Sets) > 1 && r.Choose("only-default-changes", 5) == 0 {
					// second step of a roll-out: same directory, same parameter sets, another default
					newCfg = cur
					newCfg.Sets = append([]PSet(nil), cur.Sets...)
					for _, s := range cur.Sets {
						if s.ID != cur.Default {
							newCfg.Default = s.ID
						}
					}
					nb, kind = cur.BaseDir, dirValid
					r.Count("probe:reload-changes-only-the-default")
				} else {
					w.makeDir(kind, nb, newCfg.SetMap()[newCfg.Default])
				}
				text := newCfg.YAML()
				p := &pending{newCfg: newCfg, expectNew: kind == dirValid, text: text}
				p.desc = fmt.Sprintf("new config %s, directory kind %d", newCfg.Desc(), kind)
				cf := r.Choose("config-fault", 6)
				p.dirOnly = kind != dirValid && cf > 2
				p.kind = kind
				switch cf {
				case 0: // invalid document
					text = strings.Replace(text, "default:", "defualt:", 1)
					p.expectNew = false
					p.desc += ", document invalid (unknown key)"
				case 1: // torn write: a prefix of the new file
					cut := 1 + r.Choose("torn-at", len(text)-1)
					text = text[:cut]
					p.torn = true
					p.desc += fmt.Sprintf(", torn at %d/%d bytes", cut, len(newCfg.YAML()))
					r.Count("fault:torn-config")
				case 2: // unreadable
					w.fs.Plan = func(seq int, kind, real string) *simfs.Fault {
						if real == a.cfgPath && (kind == "open" || kind == "read") {
							return &simfs.Fault{Errno: syscall.EIO}
						}
						return nil
					}
					p.expectNew = false
					p.desc += ", config file unreadable (EIO)"
					r.Count("fault:config-eio")
				}
				w.fs.Put(a.cfgPath, []byte(text), 0o600)
				p.text = text
				n := 1 + r.Choose("nsignals", 3) // several signals coalesce in the 1-slot channel
				for i := 0; i < n; i++ {
					simsignal.Raise(syscall.SIGHUP, -1)
				}
				r.Count("fault:sighup")
				r.Logf("  reload #%d: %s", issued, p.desc)
				pend = p
			}}}
		}
		reloadsSeen := 0
		o := loopOpts{maxSteps: 800, wClient: 3, wLoop: 4, wClock: 1, wExtra: 2, extra: extra}
		o.onQuiet = func() {
			if pend == nil {
				return
			}
			// the reload is processed when the dispatcher has consumed the signal: detected by a
			// pick of case 0 in this step (the log line) -- simpler: the signal channel is empty
			// and the dispatcher is parked again
			if !w.reloadConsumed(a) {
				return
			}
			reloadsSeen++
			w.fs.Plan = nil
			got := dirTriple(a.st.dir)
			newTriple := fmt.Sprintf("base=%s default=%d sets=%v", pend.newCfg.BaseDir, pend.newCfg.Default, setIDs(pend.newCfg))
			switch {
			case pend.torn:
				// all-or-nothing: the old triple, or exactly what a fresh load of those bytes gives
				alt := ""
				if d2, e2 := lib.NewDirFromConfig(a.cfgPath); e2 == nil && d2.Check() == nil {
					alt = dirTriple(d2)
				}
				if got != oldTriple && got != alt {
					r.Fail("reload/mixture", "after a reload from a torn file the agent runs with %s; old configuration is %s, a fresh load of the file gives %q", got, oldTriple, alt)
				}
				if got == alt && alt != oldTriple {
					cur = Config{} // a well-formed prefix with its own parameters: no behavioural expectations
					oldTriple = got
				}
			case pend.expectNew:
				if got != newTriple {
					r.Fail("reload/not-applied", "%s: the new configuration loads and its directory passes the check, but the agent runs with %s (expected %s)", pend.desc, got, newTriple)
				}
				oldTriple, cur = got, pend.newCfg
			default:
				if pend.dirOnly && got == oldTriple && r.Choose("repair-and-retry", 2) == 1 {
					repairable, repairKind = pend, pend.kind
				}
				if got != oldTriple {
					sig := "reload/invalid-applied"
					if got != newTriple {
						sig = "reload/mixture"
					}
					r.Fail(sig, "%s: the reload must fail and keep %s, but the agent runs with %s", pend.desc, oldTriple, got)
				}
			}
			pend = nil
		}
		w.runLoop(o)
		if wedge := w.drain(nil); wedge != "" {
			r.Fail("reload/requests-unanswered", "requests in flight across a reload were not answered: %s", wedge)
		}
		o.onQuiet()
		// behavioural view: a record written now carries the surviving configuration's default and
		// lands in its directory; a user of the other directory does not authenticate
		if cur.BaseDir != "" {
			upd := &Call{Agent: a.idx, Via: "agent", Kind: "update", User: "dana", PW: "after-reload"}
			w.addClient([]*Call{upd})
			if wedge := w.settle(nil); wedge != "" {
				r.Fail("reload/requests-unanswered", "%s", wedge)
			}
			if !upd.OK {
				r.Fail("reload/behaviour", "update after the reloads failed: %s (configuration %s)", upd.Err, cur.Desc())
			}
			_, content, ok := w.fileOf(cur.BaseDir, "dana")
			rec, perr := ParseStrict(strings.SplitN(content, "\n", 2)[0])
			if !ok || perr != nil || uint(rec.ParamID) != cur.Default {
				r.Fail("reload/behaviour", "after the reloads the agent reports %s but a password written now is %q in %s (expected default set %d)", oldTriple, strings.SplitN(content, "\n", 2)[0], cur.BaseDir, cur.Default)
			}
			other := &Call{Agent: a.idx, Via: "agent", Kind: "authenticate", User: "root", PW: "root-pw-" + cfgA.BaseDir}
			w.addClient([]*Call{other})
			w.drain(nil)
			if cur.BaseDir != cfgA.BaseDir && other.OK {
				r.Fail("reload/behaviour", "the agent serves %s but still authenticates the administrator of %s", cur.BaseDir, cfgA.BaseDir)
			}
		}
		if reloadsSeen > 0 {
			r.Count("probe:reload-processed")
		}
		r.Sample(map[string]any{"docs_judged": nd, "reloads_issued": issued, "reloads_processed": reloadsSeen, "final": oldTriple})
	})
}

func setIDs(c Config) []uint64 {
	var ids []uint64
	for _, s := range c.Sets {
		ids = append(ids, uint64(s.ID))
	}
	sort.Slice(ids, func(i, j int) bool { return ids[i] < ids[j] })
	return ids
}

// reloadConsumed: no SIGHUP is queued and the dispatcher is parked at its select again.
func (w *AWorld) reloadConsumed(a *Agent) bool {
	if simsignal.Pending() > 0 {
		return false
	}
	for _, p := range w.sched.All() {
		if strings.HasPrefix(p.Name, a.name+".store.go") {
			return p.N > 0
		}
	}
	return false
}

func firstRepoFrames(st string) string {
	var out []string
	lines := strings.Split(st, "\n")
	for i := 0; i+1 < len(lines); i++ {
		loc := lines[i+1]
		if strings.Contains(loc, "/repo/") && !strings.Contains(loc, "/zz") || strings.Contains(loc, "x/crypto") {
			fn := strings.TrimSpace(lines[i])
			if j := strings.LastIndex(fn, "("); j > 0 {
				fn = fn[:j]
			}
			out = append(out, fn)
		}
		if len(out) > 6 {
			break
		}
	}
	return strings.Join(out, " <- ")
}
