//go:build verif

package main

// Agent-level clauses of properties whose main check lives in the library harness
// (DESIGN.md 3: C03, C08, C14, C15, C16 are "L + A"). The supervisor splits the workers
// of these properties between the two harness binaries.

import (
	lib "github.com/whawty/auth/store"
	"bytes"
	"fmt"
	"strings"
	"syscall"
	"time"

	"github.com/whawty/auth/zzverif/simsignal"

	"github.com/whawty/auth/zzverif/simfs"
	"github.com/whawty/auth/zzverif/simrt"
)

func init() {
	register("C16", propC16A)
	register("C03", propC03A)
	register("C15", propC15A)
	register("C14", propC14A)
	register("C08", propC08A)
}

// ---------------------------------------------------------------------------------
// C16: the agent refuses to run any command on a directory that fails the check

// propC16Running: a running agent with concurrent clients on all its queues. Whatever the
// interleaving, the directory stays valid: one file per user, the check passes, and once
// everything has been answered the work area is empty. The only administrator that is never
// a target keeps the "does not remove or demote the last administrator" premise true.
func propC16Running(r *Run) {
	inAgentBubble(r, func(w *AWorld) {
		cfg := GenConfig(r, "/srv/whawty/base")
		model := w.populateDir(cfg, 2+r.Choose("nusers", 3), false)
		users := sortedKeysA(model)
		a, err := w.bootAgent(cfg, []string{"", "local"}[r.Choose("upgrades", 2)], "", "", "")
		if err != nil {
			r.Fail("harness/boot", "%v", err)
		}
		targets := []string{"newbie", "zed"}
		for _, u := range users {
			if u != "root" {
				targets = append(targets, u)
			}
		}
		ncl := 2 + r.Choose("nclients", 5)
		for i := 0; i < ncl; i++ {
			var plan []*Call
			for k, kN := 0, 1+r.Choose("ncalls", 3); k < kN; k++ {
				u := targets[r.Choose("target", len(targets))]
				c := &Call{Via: "agent", Agent: a.idx, User: u}
				switch r.Choose("call-kind", 6) {
				case 0, 1:
					c.Kind, c.PW, c.Admin = "add", fmt.Sprintf("added-%d-%d", i, k), r.Choose("admin", 2) == 1
				case 2:
					c.Kind, c.PW = "update", fmt.Sprintf("updated-%d-%d", i, k)
				case 3:
					c.Kind, c.Admin = "set-admin", r.Choose("admin", 2) == 1
				case 4:
					c.Kind = "remove"
				case 5:
					c.Kind, c.PW = "authenticate", "whatever"
				}
				plan = append(plan, c)
			}
			w.addClient(plan)
		}
		invariant := func(when string, idle bool) {
			names := map[string][]string{}
			for _, n := range w.fs.Names(cfg.BaseDir) {
				if n == ".tmp" {
					continue
				}
				for _, ext := range []string{".user", ".admin"} {
					if strings.HasSuffix(n, ext) {
						names[strings.TrimSuffix(n, ext)] = append(names[strings.TrimSuffix(n, ext)], n)
					}
				}
			}
			for _, u := range sortedKeysA(names) {
				if len(names[u]) > 1 {
					r.Fail("running/two-files-for-one-user", "%s: %v exist together", when, names[u])
				}
			}
			if idle {
				if left := w.fs.Names(cfg.BaseDir + "/.tmp"); len(left) > 0 {
					r.Fail("running/work-area-not-empty", "%s: every request has been answered, the work area still holds %v", when, left)
				}
				d, derr := lib.NewDirFromConfig(a.cfgPath)
				if derr != nil {
					r.Fail("harness/config", "%v", derr)
				}
				if cerr := d.Check(); cerr != nil {
					r.Fail("running/directory-invalid", "%s: the consistency check fails: %v", when, cerr)
				}
			}
		}
		if r.Choose("fs-yields", 3) == 0 {
			w.fsYields()
		}
		w.runLoop(loopOpts{maxSteps: 1500, wClient: 3, wLoop: 3, onQuiet: func() { invariant("while requests are in flight", false) }})
		if wedge := w.drain(nil); wedge != "" {
			r.FailOther("C10", wedgeSignature(wedge), "%s", wedge)
			return
		}
		invariant("after all requests were answered", true)
		r.Count("probe:running-agent-directory-runs")
		r.Nontrivial(fmt.Sprintf("running|%d|%s", ncl, cfg.Desc()))
	})
}

func propC16A(r *Run) {
	if r.Choose("running-agent-clause", 3) == 0 {
		propC16Running(r)
		return
	}
	inAgentBubble(r, func(w *AWorld) {
		cfg := GenConfig(r, "/srv/whawty/base")
		def := cfg.SetMap()[cfg.Default]
		w.fs.PutDir(cfg.BaseDir, 0o700)
		salt := make([]byte, def.SaltLen())
		w.fs.Put(cfg.BaseDir+"/root.admin", []byte(RefWrite(def, "root-pw", salt, 1000)+"\n"), 0o600)
		w.fs.Put(cfg.BaseDir+"/alice.user", []byte(RefWrite(def, "alice-pw", salt, 1000)+"\n"), 0o600)
		kind := r.Choose("invalid-kind", 7)
		valid := false
		desc := ""
		switch kind {
		case 0:
			valid, desc = true, "valid store"
		case 1:
			w.fs.Put(cfg.BaseDir+"/README", []byte("x"), 0o600)
			desc = "foreign file README"
		case 2:
			w.fs.Put(cfg.BaseDir+"/alice.admin", []byte(RefWrite(def, "x", salt, 1)+"\n"), 0o600)
			desc = "alice.user and alice.admin"
		case 3:
			w.fs.Delete(cfg.BaseDir + "/root.admin")
			desc = "no administrator"
		case 4:
			w.fs.Put(cfg.BaseDir+"/root.admin", []byte("bcrypt:1:1:AAAA:BBBB\n"), 0o600)
			desc = "only administrator has an unsupported hash"
		case 5:
			w.fs.PutDir(cfg.BaseDir+"/subdir", 0o700)
			desc = "sub-directory"
		case 6:
			w.fs.Put(cfg.BaseDir+"/root.admin", nil, 0o600)
			desc = "only administrator file is empty"
		}
		cfgPath := "/etc/whawty/cli.yaml"
		w.fs.Put(cfgPath, []byte(cfg.YAML()), 0o600)
		gen := w.fs.Snapshot(cfg.BaseDir)
		cmds := [][]string{{"add", "bob", "bob-pw"}, {"remove", "alice"}, {"update", "alice", "new-pw"}, {"set-admin", "alice", "true"}, {"list"}, {"list", "--full"}, {"authenticate", "alice", "alice-pw"}}
		n := 2 + r.Choose("ncmds", 4)
		var trace []string
		for i := 0; i < n; i++ {
			c := cmds[r.Choose("cmd", len(cmds))]
			nocheck := r.Choose("do-check-false", 4) == 0
			args := []string{"--store", cfgPath}
			if nocheck {
				args = append(args, "--do-check=false")
			}
			args = append(args, c...)
			before := w.fs.Snapshot(cfg.BaseDir)
			mut0 := w.fs.Mutations
			code := runCLI(args...)
			after := w.fs.Snapshot(cfg.BaseDir)
			line := fmt.Sprintf("%s: %v do-check=%v -> exit %d", desc, c, !nocheck, code)
			trace = append(trace, line)
			r.Logf("%s", line)
			r.Nontrivial(fmt.Sprintf("%d|%v|%v", kind, c, nocheck))
			if !valid && !nocheck {
				if code != 3 {
					r.Fail("cli/runs-on-invalid-directory", "%s: command %v on a directory that fails the consistency check exits with %d, must refuse with 3", desc, c, code)
				}
				if len(diffNoTmp(before, after)) > 0 || w.fs.Mutations != mut0 {
					r.Fail("cli/invalid-directory-modified", "%s: refused command %v modified the directory: %v", desc, c, diffNoTmp(before, after))
				}
			}
			if valid && code != 0 {
				r.Fail("cli/refuses-valid-directory", "valid store: command %v exits with %d", c, code)
			}
			// put the directory back into the generated state for the next command
			for p := range after {
				if _, ok := gen[p]; !ok && p != cfg.BaseDir+"/.tmp" {
					w.fs.Delete(p)
				}
			}
			for p, e := range gen {
				if e.Kind == "file" {
					w.fs.Put(p, []byte(e.Data), e.Perm)
				}
			}
		}
		// check and init
		code := runCLI("--store", cfgPath, "check")
		if (code == 0) != valid {
			r.Fail("cli/check-verdict", "%s: `check` exits with %d", desc, code)
		}
		if code := runCLI("--store", cfgPath, "init", "newroot", "pw"); code == 0 {
			r.Fail("cli/init-on-non-empty", "%s: init succeeded on a non-empty directory", desc)
		}
		r.Steps += n
		r.Sample(map[string]any{"directory": desc, "commands": trace})
	})
}

// ---------------------------------------------------------------------------------
// C03: hostile names through every frontend

func confinedA(base, p string) bool {
	if p == base || p == base+"/.tmp" {
		return true
	}
	if !strings.HasPrefix(p, base+"/") {
		return false
	}
	rest := p[len(base)+1:]
	if strings.HasPrefix(rest, ".tmp/") {
		return !strings.Contains(rest[5:], "/")
	}
	if strings.Contains(rest, "/") {
		return false
	}
	return strings.HasSuffix(rest, ".user") && len(rest) > 5 || strings.HasSuffix(rest, ".admin") && len(rest) > 6
}

func propC03A(r *Run) {
	inAgentBubble(r, func(w *AWorld) {
		cfg := GenConfig(r, "/srv/whawty/base")
		model := w.populateDir(cfg, 2+r.Choose("nusers", 2), false)
		users := sortedKeysA(model)
		def := cfg.SetMap()[cfg.Default]
		sib := "/srv/whawty/sibling"
		w.fs.PutDir(sib, 0o700)
		for i, u := range users {
			salt := make([]byte, def.SaltLen())
			salt[1] = byte(i + 1)
			w.fs.Put(sib+"/"+u+".admin", []byte(RefWrite(def, "sibling-"+u, salt, 1000)+"\n"), 0o600)
		}
		w.fs.Put("/srv/whawty/decoy.user", []byte(RefWrite(def, "decoy", make([]byte, def.SaltLen()), 1000)+"\n"), 0o600)
		a, err := w.bootAgent(cfg, "", "", "", "")
		if err != nil {
			r.Fail("harness/boot", "%v", err)
		}
		w.startWeb(a)
		w.startSasl(a)
		w.startLDAP(a)
		// an administrator session for the API calls
		l := &Call{Kind: "authenticate", Via: "api", Agent: a.idx, User: "root", PW: model["root"].PW}
		w.addClient([]*Call{l})
		w.settle(nil)
		if l.Token == "" {
			r.Fail("harness/login", "admin login failed: %s", l.Err)
		}
		victim := users[r.Choose("victim", len(users))]
		names := []string{"../sibling/" + victim, "../sibling/./" + victim, "/srv/whawty/sibling/" + victim, "x/../" + victim, "./" + victim, victim + "/.", "../decoy", "../base/" + victim,
			"", ".", "..", "-dash", ".hidden", "a b", "a\nb", "sub/" + victim, ".tmp/" + victim, victim + "\x00", victim + ".user", strings.Repeat("n", 256), "../sibling/" + victim + "@example.org"}
		// names that are short once cleaned although the string is longer than any file name
		names = append(names, strings.Repeat("x/../", 60)+"../sibling/"+victim, strings.Repeat("x/../", 52)+victim, strings.Repeat("./", 130)+victim)
		// a password with colons: the name / password pair can be cut at another colon, which
		// gives a name outside the grammar and the same concatenation
		splitPW := ""
		if r.Choose("split-password", 2) == 1 {
			splitPW = "pa:ss:" + victim + "-word"
			u := &Call{Kind: "update", Via: "agent", Agent: a.idx, User: victim, PW: splitPW}
			w.addClient([]*Call{u})
			w.settle(nil)
			if !u.OK {
				r.Fail("harness/update", "password change of %s failed: %s", victim, u.Err)
			}
			model[victim].PW = splitPW
			names = append(names, victim+":pa", victim+":pa", victim+":pa:ss", victim+":pa:ss")
			r.Count("probe:name-password-cut-elsewhere")
		}
		logPos := len(w.fs.Log)
		n := 3 + r.Choose("ncalls", 8)
		var trace []string
		for i := 0; i < n; i++ {
			name := names[r.Choose("name", len(names))]
			via := []string{"sasl", "ldap", "basic", "api", "cli", "agent"}[r.Choose("via", 6)]
			kind := "authenticate"
			if via == "api" || via == "agent" || via == "cli" {
				kind = []string{"authenticate", "update", "remove", "set-admin", "add"}[r.Choose("kind", 5)]
			}
			pws := []string{"sibling-" + victim, "decoy", model[victim].PW}
			pw := pws[r.Choose("pw", len(pws))]
			if splitPW != "" && strings.HasPrefix(name, victim+":") {
				// the genuine login first (whatever the agent remembers about it), then the other cut
				g := &Call{Kind: "authenticate", Via: []string{"sasl", "ldap", "basic", "api", "agent"}[r.Choose("genuine-via", 5)], Agent: a.idx, User: victim, PW: splitPW}
				w.addClient([]*Call{g})
				w.settle(nil)
				if !g.OK {
					r.Fail("harness/login", "genuine login of %s failed: %s", victim, g.Err)
				}
				kind = "authenticate"
				pw = splitPW[len(name)-len(victim):]
			}
			if via == "sasl" && (name == "" || len(name) > 256) || via == "cli" && (name == "" || strings.HasPrefix(name, "-") || strings.Contains(name, "\x00")) {
				continue
			}
			if via == "basic" && strings.Contains(name, ":") {
				continue // not expressible: Basic credentials are cut at the first colon
			}
			before := w.fs.SnapshotAll()
			ok := false
			if via == "cli" {
				args := []string{"--store", a.cfgPath, kind, name}
				switch kind {
				case "authenticate", "update", "add":
					args = append(args, pw)
				case "set-admin":
					args = append(args, "true")
				}
				ok = runCLI(args...) == 0 && kind == "authenticate"
			} else {
				c := &Call{Kind: kind, Via: via, Agent: a.idx, User: name, PW: pw, Admin: true, Session: l.Token}
				w.addClient([]*Call{c})
				if wedge := w.settle(nil); wedge != "" {
					r.FailOther("C10", wedgeSignature(wedge), "%s", wedge)
					return
				}
				ok = c.OK && kind == "authenticate"
				if kind == "add" && c.OK && !validNameA(name) {
					r.Fail("invalid-name/add-succeeded", "add of %s through %s succeeded", simrt.Q(name), via)
				}
			}
			line := fmt.Sprintf("%s %s(%s) -> authenticated=%v", via, kind, simrt.Q(name), ok)
			trace = append(trace, line)
			r.Logf("%s", line)
			r.Nontrivial(via + "|" + kind + "|" + name)
			ldapValid := via == "ldap" && validNameA(strings.SplitN(name, "@", 2)[0])
			if ok && !validNameA(name) && !ldapValid {
				r.Fail("invalid-name/authenticated-via-"+via, "%s authenticated the name %s (password %s)", via, simrt.Q(name), simrt.Q(pw))
			}
			after := w.fs.SnapshotAll()
			if !validNameA(name) && !ldapValid {
				var real []string
				for _, d := range simfs.DiffSnap(before, after) {
					if !strings.HasSuffix(d, "/.tmp") && !strings.Contains(d, "/run/whawty") {
						real = append(real, d)
					}
				}
				if len(real) > 0 {
					r.Fail("invalid-name/"+kind+"-changed-files", "%s %s(%s) changed the file system: %v", via, kind, simrt.Q(name), real)
				}
			}
			for _, rec := range w.fs.Log[logPos:] {
				touch := rec.Mut || (rec.Cred && (rec.Kind == "open" || rec.Kind == "create"))
				if !touch || strings.HasPrefix(rec.Real, "/etc/whawty") || strings.HasPrefix(rec.Real, "/run/whawty") {
					continue
				}
				for _, p := range []string{rec.Real, rec.Path2} {
					if p != "" && !confinedA(cfg.BaseDir, p) {
						r.Fail("confinement/"+rec.Kind, "%s %s(%s): operation %s touched %s, outside <base>/<name>.{user,admin} and <base>/.tmp/*", via, kind, simrt.Q(name), rec.Kind, p)
					}
				}
			}
			logPos = len(w.fs.Log)
		}
		r.Steps += n
		r.Sample(map[string]any{"calls": trace})
	})
}

func validNameA(s string) bool {
	if s == "" {
		return false
	}
	for i := 0; i < len(s); i++ {
		c := s[i]
		alnum := c >= 'a' && c <= 'z' || c >= 'A' && c <= 'Z' || c >= '0' && c <= '9'
		if i == 0 && !alnum {
			return false
		}
		if !alnum && c != '-' && c != '_' && c != '.' && c != '@' {
			return false
		}
	}
	return true
}

// ---------------------------------------------------------------------------------
// C15: every SASL request, LDAP operation and refused HTTP request performs no mutation

func propC15A(r *Run) {
	inAgentBubble(r, func(w *AWorld) {
		cfg := twoSetConfig(r, "/srv/whawty/base")
		model := w.populateDir(cfg, 2+r.Choose("nusers", 3), true)
		users := sortedKeysA(model)
		a, err := w.bootAgent(cfg, "", "", "", "") // upgrades off
		if err != nil {
			r.Fail("harness/boot", "%v", err)
		}
		w.startWeb(a)
		w.startSasl(a)
		w.startLDAP(a)
		pre := w.fs.Snapshot(cfg.BaseDir)
		n := 5 + r.Choose("nreq", 15)
		var trace []string
		for i := 0; i < n; i++ {
			u := append(users, "nobody")[r.Choose("user", len(users)+1)]
			pw := "wrong"
			if m := model[u]; m != nil && r.Choose("right", 2) == 1 {
				pw = m.PW
			}
			mut0 := w.fs.Mutations
			var c *Call
			switch r.Choose("req", 8) {
			case 0, 1:
				c = &Call{Kind: "authenticate", Via: "sasl", Agent: a.idx, User: u, PW: pw}
			case 2, 3:
				c = &Call{Kind: "authenticate", Via: "ldap", Agent: a.idx, User: u, PW: pw}
			case 4:
				c = &Call{Kind: "authenticate", Via: "basic", Agent: a.idx, User: u, PW: pw}
			case 5: // refused management requests
				c = &Call{Kind: []string{"add", "remove", "update", "set-admin", "list", "list-full"}[r.Choose("mgmt", 6)], Via: "api", Agent: a.idx, User: u, PW: "new", Session: []string{"", "garbage", "AAAAAAAAAAAAAAAA:AAAAAAAAAAAAAAAAAAAAAAAAAAAAAAAAAAAAAAAA"}[r.Choose("bad-session", 3)]}
			case 6:
				c = &Call{Kind: "update", Via: "api", Agent: a.idx, User: u, PW: "new", OldPW: "not-the-password"}
			case 7:
				c = &Call{Kind: []string{"list", "list-full", "check"}[r.Choose("ro", 3)], Via: "agent", Agent: a.idx}
			}
			w.addClient([]*Call{c})
			if wedge := w.settle(nil); wedge != "" {
				r.FailOther("C10", wedgeSignature(wedge), "%s", wedge)
				return
			}
			line := fmt.Sprintf("%s -> ok=%v status=%d", c, c.OK, c.Status)
			trace = append(trace, line)
			r.Nontrivial(fmt.Sprintf("%s|%s|%s|%v", c.Kind, c.Via, u, pw == "wrong"))
			if c.Via == "api" && c.OK && c.Kind != "authenticate" {
				r.FailOther("C06", "authz/refused-class-got-2xx/"+c.Kind, "request %s with a bad credential succeeded", c)
			}
			if w.fs.Mutations != mut0 {
				r.Fail("read-only/"+c.Via+"-"+c.Kind+"/mutated", "%s performed %d file-system mutation(s): %v", c, w.fs.Mutations-mut0, lastMutations(w.fs, 4))
			}
		}
		if d := diffNoTmp(pre, w.fs.Snapshot(cfg.BaseDir)); len(d) > 0 {
			r.Fail("read-only/store-changed", "after %d read-only / refused requests the store differs: %v", n, d)
		}
		// management calls through the running agent, on a directory that may have picked up an entry
		// that does not belong there (a synchronisation tool's temporary file, an editor backup): a
		// call that reports failure leaves the store as it was, one that succeeds touches its target only
		stray := ""
		if r.Choose("stray-entry-appears", 2) == 1 {
			stray = []string{".alice.user.Xk3F9a", "notes.txt", "root.admin~", "#bob.user#"}[r.Choose("stray-kind", 4)]
			w.fs.Put(cfg.BaseDir+"/"+stray, []byte("x\n"), 0o600)
			r.Count("probe:stray-entry-in-running-store")
		}
		nm := 2 + r.Choose("nmgmt", 6)
		for i := 0; i < nm; i++ {
			u := append(users, "nobody")[r.Choose("mgmt-user", len(users)+1)]
			var c *Call
			switch r.Choose("mgmt-op", 6) {
			case 0:
				c = &Call{Kind: "add", Via: "agent", Agent: a.idx, User: u, PW: "added-" + u, Admin: r.Choose("mgmt-admin", 2) == 1}
			case 1:
				c = &Call{Kind: "update", Via: "agent", Agent: a.idx, User: u, PW: fmt.Sprintf("changed-%d-%s", i, u)}
			case 2, 3, 4:
				c = &Call{Kind: "set-admin", Via: "agent", Agent: a.idx, User: u, Admin: r.Choose("mgmt-admin", 2) == 1}
				if u == "root" {
					c.Admin = true
				}
			case 5:
				c = &Call{Kind: "remove", Via: "agent", Agent: a.idx, User: u}
				if u == "root" {
					c.User = "nobody"
				}
			}
			before := w.fs.Snapshot(cfg.BaseDir)
			w.addClient([]*Call{c})
			if wedge := w.settle(nil); wedge != "" {
				r.FailOther("C10", wedgeSignature(wedge), "%s", wedge)
				return
			}
			d := diffNoTmp(before, w.fs.Snapshot(cfg.BaseDir))
			r.Logf("mgmt %s -> ok=%v err=%q changes=%v (stray %q)", c, c.OK, c.Err, d, stray)
			r.Nontrivial(fmt.Sprintf("mgmt|%s|%s|%v|%s", c.Kind, c.User, c.OK, stray))
			if !c.OK && len(d) > 0 {
				r.Fail("failure/"+c.Kind+"/changed-store", "%s reported failure (%s) but the store changed: %v", c, c.Err, d)
			}
			for _, dd := range d {
				f := strings.SplitN(dd, " ", 2)
				if len(f) == 2 && f[1] != cfg.BaseDir+"/"+c.User+".user" && f[1] != cfg.BaseDir+"/"+c.User+".admin" {
					r.Fail("target/"+c.Kind+"/touched-other-entry", "%s changed %s", c, dd)
				}
			}
		}
		r.Steps += n + nm
		r.Sample(map[string]any{"requests": trace[:min(len(trace), 8)]})
	})
}

func lastMutations(f *simfs.FS, n int) []string {
	var out []string
	for i := len(f.Log) - 1; i >= 0 && len(out) < n; i-- {
		if f.Log[i].Mut {
			out = append(out, f.Log[i].Kind+" "+f.Log[i].Real)
		}
	}
	return out
}

// ---------------------------------------------------------------------------------
// C14: records written by the agent (add, update, local upgrade)

func propC14A(r *Run) {
	inAgentBubble(r, func(w *AWorld) {
		cfg := twoSetConfig(r, "/srv/whawty/base")
		model := w.populateDir(cfg, 2+r.Choose("nusers", 2), true)
		users := sortedKeysA(model)
		a, err := w.bootAgent(cfg, "local", "", "", "")
		if err != nil {
			r.Fail("harness/boot", "%v", err)
		}
		def := cfg.SetMap()[cfg.Default]
		n := 3 + r.Choose("nwrites", 8)
		reloadAt := -1
		if r.Choose("with-reload", 3) == 0 {
			reloadAt = r.Choose("reload-at", n)
		}
		seen := map[string]bool{}
		w.fs.KeepBytes = true
		var marker []string
		for i := 0; i < n; i++ {
			time.Sleep([]time.Duration{0, time.Second, time.Hour}[r.Choose("clock", 3)])
			if i == reloadAt {
				// the configuration is changed to another default and reloaded: from now on that is
				// "the configured default parameter set"
				nc := cfg
				for _, s := range cfg.Sets {
					if s.ID != cfg.Default {
						nc.Default = s.ID
					}
				}
				w.fs.Put(a.cfgPath, []byte(nc.YAML()), 0o600)
				simsignal.Raise(syscall.SIGHUP, -1)
				if wedge := w.settle(nil); wedge != "" {
					r.FailOther("C10", wedgeSignature(wedge), "%s", wedge)
					return
				}
				if !w.reloadConsumed(a) {
					r.Fail("harness/reload-not-consumed", "SIGHUP not processed")
				}
				cfg = nc
				def = cfg.SetMap()[cfg.Default]
				r.Count("fault:sighup-reload")
				r.Logf("reloaded: default is now %d", cfg.Default)
			}
			u := append(users, "newbie")[r.Choose("user", len(users)+1)]
			pw := fmt.Sprintf("agent pw #%d with marker!", i)
			marker = append(marker, pw)
			m := model[u]
			var c *Call
			switch {
			case m == nil:
				c = &Call{Kind: "add", Via: "agent", Agent: a.idx, User: u, PW: pw}
			case r.Choose("login-or-update", 2) == 0:
				c = &Call{Kind: "authenticate", Via: "agent", Agent: a.idx, User: u, PW: m.PW} // may trigger an upgrade
				pw = m.PW
			default:
				c = &Call{Kind: "update", Via: "agent", Agent: a.idx, User: u, PW: pw}
			}
			seg0 := len(w.rr.Segs)
			_, before, _ := w.fileOf(cfg.BaseDir, u)
			w.addClient([]*Call{c})
			if wedge := w.settle(nil); wedge != "" {
				r.FailOther("C10", wedgeSignature(wedge), "%s", wedge)
				return
			}
			if !c.OK {
				r.FailOther("C01", "result/"+c.Kind, "%s failed on a healthy agent: %s", c, c.Err)
			}
			_, after, ok := w.fileOf(cfg.BaseDir, u)
			if !ok {
				r.Fail("record/missing", "no file for %s after %s", u, c)
			}
			if after == before {
				continue // a login of an up-to-date hash writes nothing
			}
			line := strings.SplitN(after, "\n", 2)[0]
			rec, perr := ParseStrict(line)
			if perr != nil || !strings.Contains(after, "\n") {
				r.Fail("record/grammar", "after %s the record of %s is %s: %v", c, u, simrt.Q(line), perr)
			}
			if rec.Algo != def.Algo || uint(rec.ParamID) != def.ID {
				r.Fail("record/param-set", "record of %s written as %s set %d, configured default is %s", u, rec.Algo, rec.ParamID, def.Desc())
			}
			if now := time.Now().Unix(); rec.Stamp != now {
				r.Fail("record/stamp", "record of %s carries stamp %d, the clock says %d", u, rec.Stamp, now)
			}
			if len(rec.Salt) != def.SaltLen() {
				r.Fail("record/salt-size", "salt of %d bytes, schema says %d", len(rec.Salt), def.SaltLen())
			}
			if d := def.Digest(pw, rec.Salt); d == nil || !bytes.Equal(d, rec.Digest) {
				r.Fail("record/digest", "record of %s does not match %s recomputed from the password, the stored salt and the YAML parameters", u, def.Desc())
			}
			fresh := false
			for _, s := range w.rr.Segs[seg0:] {
				if bytes.Contains(s.B, rec.Salt) {
					fresh = true
				}
			}
			if !fresh || seen[string(rec.Salt)] {
				r.Fail("record/salt-not-fresh", "salt %x of %s was not drawn from the random source for this write (or is reused)", rec.Salt, u)
			}
			seen[string(rec.Salt)] = true
			if m == nil {
				model[u] = &AUser{PW: pw, Set: def}
			} else {
				m.PW, m.Set = pw, def
			}
			r.Count("records-checked")
			r.Nontrivial(fmt.Sprintf("%s|%s|%s", cfg.Desc(), c.Kind, pw))
		}
		var all []byte
		for _, b := range w.fs.ByteLog {
			all = append(append(all, b...), 0x1e)
		}
		for _, pw := range marker {
			if bytes.Contains(all, []byte(pw)) {
				r.Fail("leak/password", "password %s was written to disk", simrt.Q(pw))
			}
		}
		r.Steps += n
		r.Sample(map[string]any{"config": cfg.Desc(), "writes": n})
	})
}

// ---------------------------------------------------------------------------------
// C08: crash of the agent process in the middle of concurrent work, then a restart

func propC08A(r *Run) {
	var img *simfs.FS
	var cfg Config
	var model map[string]*AUser
	acked := map[string][]string{}    // user -> passwords of acknowledged updates, in order
	inflight := map[string][]string{} // user -> passwords of updates invoked but not acknowledged at the crash
	var cfgPath string
	var crashedAt time.Time
	power := false
	inAgentBubble(r, func(w *AWorld) {
		cfg = twoSetConfig(r, "/srv/whawty/base")
		model = w.populateDir(cfg, 2+r.Choose("nusers", 2), true)
		users := sortedKeysA(model)
		w.fs.SyncAll()
		a, err := w.bootAgent(cfg, []string{"", "local"}[r.Choose("mode", 2)], "", "", "")
		if err != nil {
			r.Fail("harness/boot", "%v", err)
		}
		cfgPath = a.cfgPath
		w.fs.SyncAll()
		pwn := 0
		for i, iN := 0, 2+r.Choose("nclients", 4); i < iN; i++ {
			var plan []*Call
			for k, kN := 0, 1+r.Choose("ncalls", 4); k < kN; k++ {
				u := users[r.Choose("user", len(users))]
				if r.Choose("kind", 3) == 0 {
					plan = append(plan, &Call{Kind: "authenticate", Via: "agent", Agent: a.idx, User: u, PW: model[u].PW})
				} else {
					plan = append(plan, &Call{Kind: "update", Via: "agent", Agent: a.idx, User: u, PW: fmt.Sprintf("crash-pw-%02d", pwn)})
					pwn++
				}
			}
			w.addClient(plan)
		}
		// arm the crash: the k-th file-system operation from now on kills the process
		k := w.fs.NOps + r.Choose("crash-after-fs-ops", 120)
		w.fs.Plan = func(seq int, kind, real string) *simfs.Fault {
			if seq >= k {
				return &simfs.Fault{Crash: true}
			}
			return nil
		}
		w.runLoop(loopOpts{maxSteps: 400, wClient: 3, wLoop: 4, wClock: 1, stopWhen: func() bool { return w.fs.Frozen }})
		if !w.fs.Frozen {
			w.drain(nil) // no crash point reached: finish normally
			w.fs.Freeze()
		} else {
			r.Count("fault:process-kill-mid-operation")
		}
		for _, c := range w.calls {
			if c.Kind != "update" {
				continue
			}
			if c.done.Load() && c.OK {
				acked[c.User] = append(acked[c.User], c.PW)
			} else if !c.done.Load() {
				inflight[c.User] = append(inflight[c.User], c.PW)
			}
		}
		power = r.Choose("power-loss", 2) == 1
		if power {
			img = w.fs.PowerLossImage(func(kind string, n int) int { return r.Choose(kind, n) })
			r.Count("fault:power-loss")
		} else {
			img = w.fs.KillImage()
		}
		crashedAt = time.Now()
		// order of acknowledgements matters: keep the return steps
		for u := range acked {
			_ = u
		}
		r.Logf("crash at fs op %d (power=%v): acknowledged %v, in flight %v", k, power, acked, inflight)
	})
	if img == nil {
		return
	}
	// second boot on the post-crash image
	inAgentBubble(r, func(w *AWorld) {
		time.Sleep(time.Until(crashedAt) + time.Second) // the clock never goes backwards across boots
		img.Now = time.Now
		img.CrashMode = simfs.CrashBlock
		img.Choose = func(kind string, n int) int { return r.Choose(kind, n) }
		w.fs = img
		simfs.Cur = img
		a, err := w.bootAgentExisting(cfg, cfgPath, "", "", "", "")
		if err != nil {
			r.Fail("crash/agent-does-not-restart", "after the crash the agent cannot start: %v", err)
		}
		chk := &Call{Kind: "check", Via: "agent", Agent: a.idx}
		w.addClient([]*Call{chk})
		w.settle(nil)
		if !chk.OK {
			r.Fail("crash/check-fails", "store fails the consistency check after the crash: %s", chk.Err)
		}
		for _, u := range sortedKeysA(model) {
			// acceptable passwords: the last acknowledged one (or the initial one if none), or any in flight
			last := model[u].PW
			if a := acked[u]; len(a) > 0 {
				last = a[len(a)-1]
			}
			cands := append([]string{last}, inflight[u]...)
			// with several acknowledged updates racing each other their order is the dispatcher's:
			// any acknowledged password that was acknowledged concurrently is acceptable only if it is the last; keep strict
			var works []string
			all := append(append([]string{model[u].PW}, acked[u]...), inflight[u]...)
			for _, pw := range all {
				c := &Call{Kind: "authenticate", Via: "agent", Agent: a.idx, User: u, PW: pw}
				w.addClient([]*Call{c})
				w.settle(nil)
				if c.OK {
					works = append(works, pw)
				}
			}
			_, content, _ := w.fileOf(cfg.BaseDir, u)
			if len(works) != 1 {
				r.Fail("crash/record-state", "after the crash %d passwords authenticate %s (%v); file: %s", len(works), u, works, simrt.Q(strings.SplitN(content, "\n", 2)[0]))
			}
			okc := false
			for _, c := range cands {
				if c == works[0] {
					okc = true
				}
			}
			// acknowledged updates of different clients may have been applied in either order
			if !okc && len(acked[u]) > 1 {
				for _, c := range acked[u] {
					if c == works[0] {
						okc = true
						r.Count("probe:ack-order-ambiguous")
					}
				}
			}
			if !okc {
				r.Fail("crash/acknowledged-update-lost", "after the crash (power-loss=%v) %s authenticates with %s; last acknowledged password %s, in flight %v", power, u, simrt.Q(works[0]), simrt.Q(last), inflight[u])
			}
			if rest := strings.SplitN(content, "\n", 2); len(rest) == 2 && rest[1] != model[u].Aux {
				r.Fail("crash/aux-changed", "auxiliary data of %s changed across the crash", u)
			}
		}
		for _, nm := range w.fs.Names(cfg.BaseDir) {
			if nm != ".tmp" && !strings.HasSuffix(nm, ".user") && !strings.HasSuffix(nm, ".admin") {
				r.Fail("crash/residue-outside-tmp", "unexpected entry %s in the store after the crash", nm)
			}
		}
		r.Nontrivial(fmt.Sprintf("%v|%v|%v", acked, inflight, power))
		r.Sample(map[string]any{"acknowledged": acked, "in_flight_at_crash": inflight, "power_loss": power})
	})
}
