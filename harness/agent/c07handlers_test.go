//go:build verif

package main

// C07 at the level the agent uses the factory: every listener (and every restart) builds its
// own handler through newWebHandler, which creates the session factory. A token handed out
// by one handler must open on that handler only; the clause logs in through /api/authenticate
// on several handlers of one process and presents every token to every handler.

import (
	"fmt"
	"time"

	"github.com/whawty/auth/zzverif/simrt"
)

func propC07Handlers(r *Run) {
	inAgentBubble(r, func(w *AWorld) {
		cfg := GenConfig(r, "/srv/whawty/base")
		w.fs.PutDir(cfg.BaseDir, 0o700)
		def := cfg.SetMap()[cfg.Default]
		pw := map[string]string{"root": "pw-of-root", "plain": "pw-of-plain"}
		for i, u := range []string{"plain", "root"} {
			salt := make([]byte, def.SaltLen())
			salt[0] = byte(i + 1)
			ext := ".user"
			if u == "root" {
				ext = ".admin"
			}
			w.fs.Put(cfg.BaseDir+"/"+u+ext, []byte(RefWrite(def, pw[u], salt, 1000+int64(i))+"\n"), 0o600)
		}
		a, err := w.bootAgent(cfg, "", "", "", "")
		if err != nil {
			r.Fail("harness/boot", "%v", err)
		}
		nh := 2 + r.Choose("nhandlers", 2)
		type tok struct {
			text    string
			user    string
			handler int
			at      time.Time
		}
		var toks []tok
		handlers := []*Agent{a}
		w.startWeb(a)
		for h := 1; h < nh; h++ {
			// one more handler on the same store (what a second listener, or a restart of the web
			// frontend, builds): same store interface, its own mux
			ha := *a
			ha.idx = len(w.agents)
			w.agents = append(w.agents, &ha)
			w.startWeb(&ha)
			handlers = append(handlers, &ha)
		}
		do := func(c *Call) {
			w.addClient([]*Call{c})
			if wedge := w.settle(nil); wedge != "" {
				r.FailOther("C10", wedgeSignature(wedge), "%s", wedge)
			}
		}
		for k, kN := 0, 2+r.Choose("nlogins", 4); k < kN; k++ {
			h := r.Choose("login-handler", nh)
			u := []string{"root", "plain"}[r.Choose("login-user", 2)]
			c := &Call{Kind: "authenticate", Via: "api", Agent: handlers[h].idx, User: u, PW: pw[u]}
			do(c)
			if c.Token == "" {
				r.Fail("token/login-failed", "handler %d: login of %s with the right password: status %d body %s", h, u, c.Status, simrt.Q(c.Body))
			}
			toks = append(toks, tok{c.Token, u, h, time.Now()})
			if d := []time.Duration{0, time.Second, 100 * time.Second}[r.Choose("clock", 3)]; d > 0 {
				time.Sleep(d)
			}
		}
		for i, t := range toks {
			for h := range handlers {
				np := fmt.Sprintf("changed-%d-%d", i, h)
				c := &Call{Kind: "update", Via: "api", Agent: handlers[h].idx, User: t.user, PW: np, Session: t.text}
				do(c)
				ok := c.Status == 200
				fresh := time.Since(t.at) < 590*time.Second
				if h != t.handler && ok {
					r.Fail("token/other-handler-accepted", "token #%d issued by handler %d for %s is accepted by handler %d of the same process (status %d): each listener and each restart has its own session key", i, t.handler, t.user, h, c.Status)
				}
				if h == t.handler && fresh && !ok {
					r.Fail("token/valid-rejected", "token #%d issued by handler %d for %s %v ago is rejected there: status %d body %s", i, h, t.user, time.Since(t.at), c.Status, simrt.Q(c.Body))
				}
				if ok {
					pw[t.user] = np
				}
			}
		}
		r.Steps += len(toks) * nh
		r.Count("probe:handler-level-token-runs")
		r.Nontrivial(fmt.Sprintf("handlers|%d|%d|%s", nh, len(toks), cfg.Desc()))
	})
}
