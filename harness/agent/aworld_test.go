//go:build verif

package main

// Run class A (DESIGN.md 2.3 / 3): the real agent (cmd/whawty-auth + store + sasl) inside a
// synctest bubble under the seeded baton scheduler. The root goroutine of the bubble is
// the scheduler: after every synctest.Wait (exact quiescence) it takes exactly one
// enabled action -- release a parked service loop with a probe order, start a client
// call, advance the clock, or a property-specific action (SIGHUP, fault, ...).

import (
	"bytes"
	"encoding/json"
	"fmt"
	"io"
	"log"
	"net/http"
	"net/http/httptest"
	"runtime"
	"sort"
	"strings"
	"sync"
	"sync/atomic"
	"testing/synctest"
	"time"

	"github.com/whawty/auth/sasl"
	lib "github.com/whawty/auth/store"
	"github.com/whawty/auth/zzverif/simexec"
	"github.com/whawty/auth/zzverif/simfs"
	"github.com/whawty/auth/zzverif/simnet"
	"github.com/whawty/auth/zzverif/simrt"
	"github.com/whawty/auth/zzverif/simsignal"
)

// Call is one client request and, once it returned, its result.
type Call struct {
	Kind  string // authenticate add update remove set-admin list list-full check
	Via   string // agent | sasl | ldap | basic | api
	Agent int
	User  string
	PW    string
	Admin bool
	// extra inputs for HTTP API calls
	Session string
	OldPW   string
	Raw     string // authenticate via api: this request body instead of the JSON of User / PW
	Realm   string // authenticate via sasl: the realm field of the request

	done        atomic.Bool
	OK          bool
	Err         string
	IsAdmin     bool
	LastChanged int64
	List        map[string]lib.User
	ListFull    map[string]lib.UserFull
	Status      int
	Body        string
	Token       string
	Client      int
	Invoke      int // scheduler step at which the call was released
	Return      int // first quiescent step at which the result was visible
	seen        bool
}

func (c *Call) String() string {
	s := fmt.Sprintf("%s[%s](%s", c.Kind, c.Via, simrt.Q(c.User))
	switch c.Kind {
	case "authenticate", "add", "update":
		s += ",pw=" + simrt.Q(c.PW)
	}
	if c.Kind == "add" || c.Kind == "set-admin" {
		s += fmt.Sprintf(",admin=%v", c.Admin)
	}
	s += ")"
	if c.done.Load() {
		s += fmt.Sprintf(" -> ok=%v err=%q", c.OK, c.Err)
	}
	return s
}

type Client struct {
	id       int
	plan     []*Call
	next     int // index of the next call to start
	gate     chan struct{}
	finished atomic.Bool
}

type Agent struct {
	idx      int
	name     string
	st       *store
	iface    *Store
	cfg      Config
	cfgPath  string
	mux      *http.ServeMux
	saslPath string
	ldapAddr string
	upgrades string
	hooksDir string
}

type pendingHTTP struct {
	req    *http.Request
	body   []byte
	resp   chan *http.Response
	err    chan error
	target string
}

type AWorld struct {
	r       *Run
	fs      *simfs.FS
	nw      *simnet.Net
	ex      *simexec.World
	sched   *simrt.Sched
	agents  []*Agent
	clients []*Client
	step    int
	pickMu  sync.Mutex
	picks   []string
	calls   []*Call
	fsPos   int
	// remote upgrade transport
	rtMu      sync.Mutex
	rtPending []*pendingHTTP
	rtMode    string // deliver | refuse | stall | 500
	rtMaster  *Agent
	stepA     atomic.Int64 // copy of step readable from other goroutines
	baseAt    map[int]map[int]string
	mutSteps  map[string][]int
	noClock   bool
	rr        *randRecorder
	maxQ      map[string]int
	progress  int
	schedHash uint64
}

func (w *AWorld) Choose(kind string, n int) int { return w.r.Choose(kind, n) }

// inAgentBubble sets up the simulated world and runs f as the bubble's root (= scheduler).
func inAgentBubble(r *Run, f func(w *AWorld)) {
	inBubble(r, func(rr *randRecorder) {
		w := &AWorld{r: r, maxQ: map[string]int{}, rr: rr}
		w.fs = simfs.New()
		w.fs.Now = time.Now
		w.fs.CrashMode = simfs.CrashBlock
		w.fs.Choose = func(kind string, n int) int { return r.Choose(kind, n) }
		simfs.Cur = w.fs
		simfs.Env = map[string]string{}
		w.nw = simnet.New()
		w.nw.Auto = true
		simnet.Cur = w.nw
		w.ex = simexec.NewWorld()
		w.ex.OnStart = func(p *simexec.Proc) { p.Step = int(w.stepA.Load()) }
		simexec.Cur = w.ex
		w.ex.Cwd = func() string { return simfs.Cur.Cwd }
		w.ex.Exists = func(abs string) bool { _, err := simfs.Stat(abs); return err == nil }
		simsignal.Reset()
		w.sched = simrt.NewSched()
		w.sched.OnPick = func(name, site string, picked int) {
			w.pickMu.Lock()
			w.picks = append(w.picks, fmt.Sprintf("%s picks case %d", name, picked))
			w.pickMu.Unlock()
		}
		simrt.S = w.sched
		defer func() { simrt.S = nil }()
		wl.SetOutput(io.Discard)
		wdl.SetOutput(io.Discard)
		log.SetOutput(io.Discard)
		prevT := http.DefaultTransport
		http.DefaultTransport = &simTransport{w}
		defer func() { http.DefaultTransport = prevT }()
		w.fs.PutDir("/etc/whawty", 0o755)
		w.fs.PutDir("/run/whawty", 0o755)
		w.fs.PutDir("/tmp", 0o777)
		f(w)
	})
}

// bootAgent writes the configuration and starts an agent the way cmdRun does (NewStore;
// listeners are started on demand). Its service loops are adopted by the scheduler.
func (w *AWorld) bootAgent(cfg Config, upgrades, policyType, policyCond, hooksDir string) (*Agent, error) {
	a := &Agent{idx: len(w.agents), cfg: cfg, upgrades: upgrades, hooksDir: hooksDir}
	a.name = fmt.Sprintf("agent%d", a.idx)
	a.cfgPath = fmt.Sprintf("/etc/whawty/%s.yaml", a.name)
	w.fs.Put(a.cfgPath, []byte(cfg.YAML()), 0o600)
	synctest.Wait() // stragglers of earlier in-process CLI runs must not fall into the adoption window
	w.sched.Adopt(a.name)
	st, err := NewStore(a.cfgPath, upgrades, policyType, policyCond, hooksDir)
	synctest.Wait()
	w.sched.EndAdopt()
	if err != nil {
		return nil, err
	}
	a.st = st
	a.iface = st.GetInterface()
	w.agents = append(w.agents, a)
	w.r.Logf("boot %s: %s upgrades=%q policy=%q/%q hooks=%q", a.name, cfg.Desc(), upgrades, policyType, policyCond, hooksDir)
	return a, nil
}

// bootAgentExisting starts an agent on an existing configuration file.
func (w *AWorld) bootAgentExisting(cfg Config, cfgPath, upgrades, policyType, policyCond, hooksDir string) (*Agent, error) {
	a := &Agent{idx: len(w.agents), cfg: cfg, upgrades: upgrades, hooksDir: hooksDir, cfgPath: cfgPath}
	a.name = fmt.Sprintf("agent%d", a.idx)
	synctest.Wait()
	w.sched.Adopt(a.name)
	st, err := NewStore(cfgPath, upgrades, policyType, policyCond, hooksDir)
	synctest.Wait()
	w.sched.EndAdopt()
	if err != nil {
		return nil, err
	}
	a.st, a.iface = st, st.GetInterface()
	w.agents = append(w.agents, a)
	return a, nil
}

// frontendIface obtains the store interface the way cmdRun does for every listener it starts:
// by another GetInterface call (inside an adoption window, so that anything a changed tree
// starts there is known to the scheduler).
func (w *AWorld) frontendIface(a *Agent) *Store {
	synctest.Wait()
	w.sched.Adopt(a.name)
	i := a.st.GetInterface()
	synctest.Wait()
	w.sched.EndAdopt()
	return i
}

func (w *AWorld) startWeb(a *Agent) {
	mux, err := newWebHandler(w.frontendIface(a))
	if err != nil {
		w.r.Fail("harness/web", "%v", err)
	}
	a.mux = mux
}

func (w *AWorld) startSasl(a *Agent) {
	a.saslPath = fmt.Sprintf("/run/whawty/%s.sock", a.name)
	iface := w.frontendIface(a)
	go func() {
		w.sched.Register(a.name + ".sasl-accept") // goroutines it starts from function literals are scheduled too
		runSaslAuthSocket(a.saslPath, iface)      //nolint
	}()
	synctest.Wait()
}

func (w *AWorld) startLDAP(a *Agent) {
	a.ldapAddr = fmt.Sprintf("127.0.0.1:%d", 3890+a.idx)
	ln, err := simnet.Listen("tcp", a.ldapAddr)
	if err != nil {
		w.r.Fail("harness/ldap-listen", "%v", err)
	}
	iface := w.frontendIface(a)
	go runLDAPListener(ln.(*simnet.TCPListener), &ldapConfig{}, iface) //nolint
	synctest.Wait()
}

// addClient registers a client with its plan and starts its goroutine (parked at the gate).
func (w *AWorld) addClient(plan []*Call) *Client {
	c := &Client{id: len(w.clients), plan: plan, gate: make(chan struct{})}
	for _, call := range plan {
		call.Client = c.id
	}
	w.clients = append(w.clients, c)
	go func() {
		w.sched.Register(fmt.Sprintf("c%d", c.id)) // the client's channel operations inside the agent's code are scheduling points
		for _, call := range c.plan {
			<-c.gate
			w.exec(call)
			call.done.Store(true)
		}
		c.finished.Store(true)
	}()
	return c
}

// exec performs one call through the chosen frontend. Runs in a client goroutine.
func (w *AWorld) exec(c *Call) {
	a := w.agents[c.Agent]
	defer func() {
		if x := recover(); x != nil {
			c.Err = fmt.Sprintf("PANIC: %v", x)
		}
	}()
	switch c.Via {
	case "agent":
		var err error
		switch c.Kind {
		case "authenticate":
			var lc time.Time
			c.OK, c.IsAdmin, lc, err = a.iface.Authenticate(c.User, c.PW)
			c.LastChanged = lc.Unix()
		case "add":
			err = a.iface.Add(c.User, c.PW, c.Admin)
			c.OK = err == nil
		case "update":
			err = a.iface.Update(c.User, c.PW)
			c.OK = err == nil
		case "remove":
			err = a.iface.Remove(c.User)
			c.OK = err == nil
		case "set-admin":
			err = a.iface.SetAdmin(c.User, c.Admin)
			c.OK = err == nil
		case "list":
			var l lib.UserList
			l, err = a.iface.List()
			c.List = l
			c.OK = err == nil
		case "list-full":
			var l lib.UserListFull
			l, err = a.iface.ListFull()
			c.ListFull = l
			c.OK = err == nil
		case "check":
			err = a.iface.Check()
			c.OK = err == nil
		case "init":
			err = a.iface.Init(c.User, c.PW)
			c.OK = err == nil
		}
		if err != nil {
			c.Err = err.Error()
		}
	case "sasl":
		ok, msg, err := sasl.NewClient(a.saslPath).Auth(c.User, c.PW, "svc", c.Realm)
		c.OK = ok && err == nil
		c.Body = msg
		if err != nil {
			c.Err = err.Error()
		}
	case "ldap":
		c.OK, c.Err = ldapBind(a.ldapAddr, c.User, c.PW)
	case "basic":
		req := httptest.NewRequest("GET", "/basic-auth", nil)
		switch c.Raw {
		case "":
			req.SetBasicAuth(c.User, c.PW)
		case "no-header":
		default:
			req.Header.Set("Authorization", c.Raw) // a malformed or foreign-scheme header
		}
		rec := httptest.NewRecorder()
		if p := serveRecover(a.mux, rec, req); p != "" {
			c.Status, c.Body = -1, "HANDLER PANIC: "+p
			return
		}
		c.Status, c.Body = rec.Code, rec.Body.String()
		c.OK = rec.Code == 200
	case "api":
		w.execAPI(a, c)
	default:
		c.Err = "harness: unknown frontend " + c.Via
	}
}

// serveRecover calls the handler the way net/http does: a panic is recovered (the real
// server then aborts the connection). Returns the panic text, "" if none.
func serveRecover(h http.Handler, rec *httptest.ResponseRecorder, req *http.Request) (p string) {
	defer func() {
		if x := recover(); x != nil {
			p = fmt.Sprint(x)
		}
	}()
	h.ServeHTTP(rec, req)
	return ""
}

func (w *AWorld) postJSON(a *Agent, path string, body any) (int, map[string]any, string) {
	var rd io.Reader
	switch b := body.(type) {
	case string:
		rd = strings.NewReader(b)
	default:
		j, _ := json.Marshal(body)
		rd = bytes.NewReader(j)
	}
	req := httptest.NewRequest("POST", path, rd)
	req.Header.Set("Content-Type", "application/json")
	rec := httptest.NewRecorder()
	if p := serveRecover(a.mux, rec, req); p != "" {
		// net/http recovers a panicking handler and aborts the connection: no status at all
		return -1, map[string]any{}, "HANDLER PANIC: " + p
	}
	var m map[string]any
	json.Unmarshal(rec.Body.Bytes(), &m) //nolint
	return rec.Code, m, rec.Body.String()
}

func (w *AWorld) execAPI(a *Agent, c *Call) {
	var code int
	var m map[string]any
	switch c.Kind {
	case "authenticate":
		if c.Raw != "" {
			code, m, c.Body = w.postJSON(a, "/api/authenticate", c.Raw)
		} else {
			code, m, c.Body = w.postJSON(a, "/api/authenticate", map[string]any{"username": c.User, "password": c.PW})
		}
		if s, ok := m["session"].(string); ok {
			c.Token = s
		}
		if b, ok := m["admin"].(bool); ok {
			c.IsAdmin = b
		}
	case "add":
		code, m, c.Body = w.postJSON(a, "/api/add", map[string]any{"session": c.Session, "username": c.User, "password": c.PW, "admin": c.Admin})
	case "remove":
		code, m, c.Body = w.postJSON(a, "/api/remove", map[string]any{"session": c.Session, "username": c.User})
	case "update":
		b := map[string]any{"username": c.User, "newpassword": c.PW}
		if c.Session != "" {
			b["session"] = c.Session
		}
		if c.OldPW != "" {
			b["oldpassword"] = c.OldPW
		}
		code, m, c.Body = w.postJSON(a, "/api/update", b)
	case "reauth":
		// what a replica sends for a remote hash upgrade: the old password and no new one
		code, m, c.Body = w.postJSON(a, "/api/update", map[string]any{"username": c.User, "oldpassword": c.PW})
	case "set-admin":
		code, m, c.Body = w.postJSON(a, "/api/set-admin", map[string]any{"session": c.Session, "username": c.User, "admin": c.Admin})
	case "list":
		code, m, c.Body = w.postJSON(a, "/api/list", map[string]any{"session": c.Session})
	case "list-full":
		code, m, c.Body = w.postJSON(a, "/api/list-full", map[string]any{"session": c.Session})
	}
	c.Status = code
	c.OK = code == 200
	if e, ok := m["error"].(string); ok {
		c.Err = e
	}
}

// ---------------------------------------------------------------------------------
// remote upgrade transport (http.DefaultTransport inside the bubble)

type simTransport struct{ w *AWorld }

func (t *simTransport) RoundTrip(req *http.Request) (*http.Response, error) {
	w := t.w
	var body []byte
	if req.Body != nil {
		body, _ = io.ReadAll(req.Body)
		req.Body.Close()
	}
	p := &pendingHTTP{req: req, body: body, resp: make(chan *http.Response, 1), err: make(chan error, 1), target: req.URL.String()}
	w.rtMu.Lock()
	mode := w.rtMode
	if mode == "refuse" {
		w.rtMu.Unlock()
		w.r.Count("fault:master-unreachable")
		return nil, fmt.Errorf("dial tcp: connection refused")
	}
	w.rtPending = append(w.rtPending, p)
	w.rtMu.Unlock()
	select { // parked until the scheduler delivers (or never: stalled master)
	case r := <-p.resp:
		return r, nil
	case e := <-p.err:
		return nil, e
	}
}

// deliverHTTP lets one pending remote request reach the master's handler (runs the
// handler in its own goroutine so that the scheduler is not blocked by it).
func (w *AWorld) deliverHTTP(p *pendingHTTP, mode string) {
	switch mode {
	case "500":
		rec := httptest.NewRecorder()
		rec.WriteHeader(500)
		p.resp <- rec.Result()
		w.r.Count("fault:master-5xx")
		return
	case "drop":
		p.err <- fmt.Errorf("connection reset by peer")
		w.r.Count("fault:master-reset")
		return
	}
	go func() {
		req := httptest.NewRequest(p.req.Method, p.req.URL.Path, bytes.NewReader(p.body))
		req.Header = p.req.Header
		rec := httptest.NewRecorder()
		w.rtMaster.mux.ServeHTTP(rec, req)
		p.resp <- rec.Result()
	}()
}

// ---------------------------------------------------------------------------------
// the scheduler

type action struct {
	cat  int // 0 client call, 1 service loop, 2 clock, 3 extra
	desc string
	do   func()
}

type loopOpts struct {
	maxSteps  int
	wClient   int
	wLoop     int
	wClock    int
	wExtra    int
	clockMenu []time.Duration
	extra     func() []action // property-specific enabled actions
	onQuiet   func()          // invariants at every quiescence
	stopWhen  func() bool
}

var defaultClockMenu = []time.Duration{time.Millisecond, time.Second, 5*time.Second - time.Nanosecond, 5 * time.Second, 5*time.Second + time.Nanosecond, time.Minute, 10 * time.Minute}

// observe runs at quiescence: newly completed calls get their return stamp; queue
// occupancy is sampled; scheduler picks are moved into the event log.
func (w *AWorld) observe() {
	w.pickMu.Lock()
	for _, p := range w.picks {
		w.r.Logf("  %s", p)
		w.schedHash = w.schedHash*1099511628211 + uint64(len(p)) + uint64(p[len(p)-1])
	}
	w.picks = w.picks[:0]
	w.pickMu.Unlock()
	// file-system activity of the step, summarised
	if n := len(w.fs.Log) - w.fsPos; n > 0 {
		mut := 0
		for _, rec := range w.fs.Log[w.fsPos:] {
			if rec.Mut {
				mut++
			}
		}
		w.r.Logf("  fs: %d ops, %d mutations", n, mut)
		if w.mutSteps == nil {
			w.mutSteps = map[string][]int{}
		}
		for _, rec := range w.fs.Log[w.fsPos:] {
			if rec.Mut && (rec.Kind == "rename" || rec.Kind == "remove") {
				w.mutSteps[rec.Real] = append(w.mutSteps[rec.Real], w.step) // when a record changed (scheduler step)
			}
		}
		w.fsPos = len(w.fs.Log)
	}
	for _, c := range w.calls {
		if !c.seen && c.done.Load() {
			c.seen = true
			c.Return = w.step
			w.progress++
			w.r.Logf("  return c%d %s", c.Client, c)
			if strings.HasPrefix(c.Err, "PANIC") {
				w.r.Fail("panic/frontend", "client call %s: %s", c, c.Err)
			}
		}
	}
	for _, a := range w.agents {
		if w.baseAt == nil {
			w.baseAt = map[int]map[int]string{}
		}
		if w.baseAt[a.idx] == nil {
			w.baseAt[a.idx] = map[int]string{}
		}
		w.baseAt[a.idx][w.step] = a.st.dir.BaseDir // configuration in force after this step (in-package view)
		q := map[string]int{"auth": len(a.st.authenticateChan), "update": len(a.st.updateChan), "add": len(a.st.addChan), "remove": len(a.st.removeChan), "notify": len(a.st.hooks.Notify)}
		for k, v := range q {
			if v > w.maxQ[k] {
				w.maxQ[k] = v
			}
		}
		if len(a.st.updateChan) == cap(a.st.updateChan) {
			w.r.Count("probe:update-queue-full")
		}
	}
}

func (w *AWorld) clientActions() []action {
	var out []action
	for _, c := range w.clients {
		c := c
		if c.finished.Load() || c.next >= len(c.plan) {
			continue
		}
		if c.next > 0 && !c.plan[c.next-1].done.Load() {
			continue // previous call still in flight
		}
		call := c.plan[c.next]
		out = append(out, action{0, fmt.Sprintf("c%d starts %s", c.id, call), func() {
			call.Invoke = w.step
			w.calls = append(w.calls, call)
			c.next++
			c.gate <- struct{}{}
		}})
	}
	return out
}

func (w *AWorld) loopActions() []action {
	var out []action
	for _, p := range w.sched.Runnable() {
		p := p
		desc := "release " + p.Name
		if p.Yield {
			desc += " @" + p.Site
		}
		out = append(out, action{1, desc, func() {
			order := simrt.Perm(p.N, w.r.Choose)
			w.sched.Release(p, order)
		}})
	}
	return out
}

// runLoop is the workload phase: until no client has calls left to start (or maxSteps).
func (w *AWorld) runLoop(o loopOpts) {
	if o.clockMenu == nil {
		o.clockMenu = defaultClockMenu
	}
	wake := true
	picksBefore := w.sched.Picks
	for n := 0; n < o.maxSteps; n++ {
		synctest.Wait()
		// idle service loops become eligible again once something changed -- decided here, at
		// quiescence (never while the released goroutine may still be running)
		if wake || w.sched.Picks > picksBefore {
			w.sched.WakeIdle()
		}
		picksBefore = w.sched.Picks
		w.observe()
		if o.onQuiet != nil {
			o.onQuiet()
		}
		if o.stopWhen != nil && o.stopWhen() {
			return
		}
		cats := [4][]action{}
		cats[0] = w.clientActions()
		cats[1] = w.loopActions()
		if o.wClock > 0 {
			cats[2] = []action{{2, "clock", nil}}
		}
		if o.extra != nil {
			cats[3] = o.extra()
		}
		if len(cats[0]) == 0 && (o.extra == nil || len(cats[3]) == 0) {
			// nothing can be started right now. The workload phase is only over when no client
			// has a call left; while some are merely waiting for an answer the seeded scheduler
			// (service loops, handlers, clock) keeps deciding - the fair drain comes afterwards
			left := false
			for _, c := range w.clients {
				if !c.finished.Load() && c.next < len(c.plan) {
					left = true
				}
				// a call that has been started and not answered yet is still workload: who runs
				// next while it is being served stays a tape decision (the fair drain is only the tail)
				if c.next > 0 && !c.plan[c.next-1].done.Load() {
					left = true
				}
			}
			if !left || len(cats[1]) == 0 {
				return // nothing left to start or to answer (or nothing runnable at all): drain
			}
		}
		weights := [4]int{o.wClient, o.wLoop, o.wClock, o.wExtra}
		total := 0
		for i := range cats {
			if len(cats[i]) == 0 {
				weights[i] = 0
			}
			total += weights[i]
		}
		if total == 0 {
			return
		}
		x := w.r.Choose("category", total)
		cat := 0
		for i := range weights {
			if x < weights[i] {
				cat = i
				break
			}
			x -= weights[i]
		}
		w.step++; w.stepA.Store(int64(w.step))
		w.r.Steps++
		if cat == 2 {
			d := o.clockMenu[w.r.Choose("clock-step", len(o.clockMenu))]
			w.r.Logf("step %d: clock +%v", w.step, d)
			time.Sleep(d)
			wake = true
			continue
		}
		a := cats[cat][w.r.Choose("which", len(cats[cat]))]
		w.r.Logf("step %d: %s", w.step, a.desc)
		// releasing a service loop that then finds nothing ready changes nothing (it goes idle)
		wake = cat != 1 || strings.Contains(a.desc, " @")
		a.do()
	}
}

// drain: the fair phase after workload and faults have stopped. Returns "" when every
// client call returned and the agent went quiet, otherwise a description of the wedge.
func (w *AWorld) drain(extra func() bool) string { return w.drainMode(extra, true) }

// quiesce lets everything runnable run but never advances the clock; it reports the calls
// still unanswered then ("" if none).
func (w *AWorld) quiesce(extra func() bool) string {
	w.noClock = true
	defer func() { w.noClock = false }()
	return w.drainMode(extra, false)
}

// settle is drain for sequential use: it lets everything runnable run until the agent is
// quiet but does not advance the clock when all client calls have returned (session
// tokens and rate-limit windows stay as they are). If calls remain unanswered it falls
// back to the full drain, which decides whether that is a wedge.
func (w *AWorld) settle(extra func() bool) string { return w.drainMode(extra, false) }

func (w *AWorld) allCallsDone() bool {
	for _, c := range w.calls {
		if !c.done.Load() {
			return false
		}
	}
	for _, c := range w.clients {
		if !c.finished.Load() && c.next < len(c.plan) {
			return false
		}
	}
	return true
}

func (w *AWorld) drainMode(extra func() bool, clock bool) string {
	fruitless := 0
	for iter := 0; iter < 3000; iter++ {
		synctest.Wait()
		w.observe()
		before := w.progress
		picksBefore := w.sched.Picks
		yielded := 0
		w.sched.WakeIdle()
		// start remaining client calls first (a client whose previous call just returned)
		started := false
		for _, a := range w.clientActions() {
			w.step++; w.stepA.Store(int64(w.step))
			w.r.Steps++
			w.r.Logf("step %d (drain): %s", w.step, a.desc)
			a.do()
			synctest.Wait()
			w.observe()
			started = true
		}
		// one fair round over the service loops
		for guard := 0; guard < 1500; guard++ {
			rs := w.sched.Runnable()
			if len(rs) == 0 {
				break
			}
			p := rs[guard%len(rs)]
			w.step++; w.stepA.Store(int64(w.step))
			w.r.Steps++
			pb := w.sched.Picks
			wasYield := p.Yield
			w.sched.Release(p, simrt.Perm(p.N, w.r.Choose))
			synctest.Wait()
			w.observe()
			if w.sched.Picks > pb || wasYield {
				w.r.Logf("step %d (drain): released %s", w.step, p.Name)
				w.sched.WakeIdle()
				yielded++
			}
		}
		moved := extra != nil && extra()
		if w.netDeliverOne() {
			moved = true
		}
		if w.progress > before || w.sched.Picks > picksBefore || started || moved || yielded > 0 {
			fruitless = 0
			continue
		}
		if !clock && (w.allCallsDone() || w.noClock) {
			break
		}
		fruitless++
		if fruitless > 3 {
			break
		}
		w.r.Logf("drain: nothing runnable, clock +1h")
		time.Sleep(time.Hour)
	}
	var stuck []string
	for _, c := range w.calls {
		if !c.done.Load() {
			stuck = append(stuck, fmt.Sprintf("c%d %s (invoked at step %d)", c.Client, c, c.Invoke))
		}
	}
	for _, c := range w.clients {
		if !c.finished.Load() && c.next < len(c.plan) {
			stuck = append(stuck, fmt.Sprintf("c%d never got to start %s", c.id, c.plan[c.next]))
		}
	}
	if len(stuck) == 0 {
		return ""
	}
	nstuck := len(stuck)
	if len(stuck) > 6 {
		stuck = append(stuck[:6], fmt.Sprintf("... and %d more", nstuck-6))
	}
	disp := ""
	for _, a := range w.agents {
		state := "is NOT back at its select (blocked while handling a request)"
		for _, p := range w.sched.All() {
			if strings.HasPrefix(p.Name, a.name+".store.go") && p.N > 0 {
				state = "is parked at its select (idle)"
			}
		}
		disp += fmt.Sprintf("dispatcher of %s %s; ", a.name, state)
	}
	return fmt.Sprintf("%d call(s) never returned although the workload stopped, every service loop was given a turn and the clock advanced by hours: %s\n%s\nblocked goroutines in the agent:\n%s", nstuck, strings.Join(stuck, "; "), disp, blockedRepoGoroutines())
}

// blockedRepoGoroutines summarises the goroutines that are blocked inside code of the
// repository (file names map back to /repo through the //line directives).
func blockedRepoGoroutines() string {
	self := make([]byte, 4096)
	self = self[:runtime.Stack(self, false)]
	bubble := ""
	if i := strings.Index(string(self), "synctest bubble "); i >= 0 {
		bubble = string(self)[i:]
		if j := strings.IndexAny(bubble, "]:,\n"); j > 0 {
			bubble = bubble[:j]
		}
	}
	// earlier runs leave frozen goroutines behind, so the dump of a long-lived worker is large:
	// grow the buffer until everything fits (a truncated dump would lose this run's goroutines
	// and change the violation signature from worker to replay)
	buf := make([]byte, 4<<20)
	for {
		n := runtime.Stack(buf, true)
		if n < len(buf) || len(buf) >= 1<<30 {
			buf = buf[:n]
			break
		}
		buf = make([]byte, 2*len(buf))
	}
	var out []string
	for _, g := range strings.Split(string(buf), "\n\n") {
		lines := strings.Split(g, "\n")
		if len(lines) < 3 {
			continue
		}
		// only goroutines of this run's bubble (earlier runs leave frozen goroutines behind)
		if bubble == "" || !strings.Contains(lines[0], bubble+"]") && !strings.Contains(lines[0], bubble+",") {
			continue
		}
		var frames []string
		for i := 1; i+1 < len(lines); i += 2 {
			fn, loc := strings.TrimSpace(lines[i]), strings.TrimSpace(lines[i+1])
			if strings.Contains(loc, "/zz_") || strings.Contains(loc, "/zzverif/") || !strings.Contains(loc, "/whawty") && !strings.Contains(loc, "/repo") {
				continue
			}
			if j := strings.Index(loc, " +0x"); j > 0 {
				loc = loc[:j]
			}
			if j := strings.Index(fn, " in goroutine "); j > 0 {
				fn = fn[:j] // "created by X in goroutine N"
			}
			fn = strings.TrimPrefix(fn, "created by ")
			if j := strings.LastIndex(fn, "("); j > 0 && strings.HasSuffix(fn, ")") {
				fn = fn[:j]
			}
			if j := strings.LastIndex(fn, "/"); j >= 0 {
				fn = fn[j+1:]
			}
			if k := strings.LastIndex(loc, "/"); k >= 0 {
				loc = loc[k+1:]
			}
			frames = append(frames, fn+" "+loc)
		}
		if len(frames) > 0 && strings.Contains(lines[0], "chan") {
			hdr := lines[0]
			if j := strings.Index(hdr, "["); j > 0 {
				hdr = hdr[j:]
			}
			hdr = strings.TrimSuffix(hdr, ":")
			if k := strings.IndexAny(hdr, ",("); k > 0 {
				hdr = strings.TrimSpace(hdr[:k]) + "]"
			}
			out = append(out, "  "+hdr+" "+strings.Join(frames, " <- "))
		}
	}
	sort.Strings(out)
	return strings.Join(out, "\n")
}

// baseOf returns the base directory agent idx served from after the given step.
func (w *AWorld) baseOf(idx, step int) string {
	for s := step; s >= 0; s-- {
		if b, ok := w.baseAt[idx][s]; ok {
			return b
		}
	}
	return w.agents[idx].cfg.BaseDir
}

// netDeliverOne delivers one scheduler-chosen fragment (or the close) of a manually delivered
// connection, if any is waiting. Byte delivery is a scheduling decision like any other.
func (w *AWorld) netDeliverOne() bool {
	ps := w.nw.ManualPending()
	if len(ps) == 0 {
		return false
	}
	p := ps[w.r.Choose("net-conn", len(ps))]
	c2s, _, cfin, _ := p.Pending()
	if c2s > 0 {
		max := c2s
		if max > 9 {
			max = 9
		}
		k := 1 + w.r.Choose("net-bytes", max)
		if w.r.Choose("net-all", 5) == 0 {
			k = c2s
		}
		p.Deliver(true, k)
		w.r.Count("fault:fragmented-delivery")
		w.r.Logf("  net: conn%d delivers %d of %d bytes to the server", p.ID, k, c2s)
	} else if cfin {
		p.DeliverFin(true)
	}
	synctest.Wait()
	w.observe()
	return true
}

// fsYields makes every file-system operation of a goroutine the scheduler knows a scheduling
// point (swarm option: costs one step per operation, so only some runs use it). With it a
// goroutine that walks the store directory can be interleaved with one that renames in it.
// netYields makes every read and write of a server-side connection end a scheduling point
// (swarm option, like fsYields): two connection handlers can be interleaved between building
// a reply and writing it.
func (w *AWorld) netYields() {
	w.nw.Gate = func() { simrt.Yield("net") }
	w.r.Count("probe:runs-with-network-operation-yields")
}

func (w *AWorld) fsYields() {
	w.fs.Gate = func() { simrt.Yield("fs") }
	w.r.Count("probe:runs-with-fs-operation-yields")
}
