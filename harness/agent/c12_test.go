//go:build verif

package main

import (
	"fmt"
	"strings"
	"syscall"
	"testing/synctest"
	"time"
	"unicode/utf8"

	zxcvbn "github.com/nbutton23/zxcvbn-go"
	lib "github.com/whawty/auth/store"
	"github.com/whawty/auth/zzverif/simfs"
	"github.com/whawty/auth/zzverif/simrt"
	"github.com/whawty/auth/zzverif/simsignal"
)

func init() { register("C12", propC12) }

// fileOf returns extension and content of u's file below base.
func (w *AWorld) fileOf(base, u string) (ext, content string, ok bool) {
	for _, e := range []string{".admin", ".user"} {
		if b, ok := w.fs.Get(base + "/" + u + e); ok {
			return e, string(b), true
		}
	}
	return "", "", false
}

func propC12(r *Run) {
	inAgentBubble(r, func(w *AWorld) {
		cfg := twoSetConfig(r, "/srv/whawty/base")
		model := w.populateDir(cfg, 2+r.Choose("nusers", 3), true)
		users := sortedKeysA(model)
		// some users get passwords that straddle a policy
		pwChoices := []string{"", "correct horse battery staple", "Tr0ub4dor&3", "password", "qwerty", "zQ9#vLp2!xTe", " leading and trailing blanks ", "tab-terminated passphrase\t", "newline-terminated\n", "UPPER lower"}
		for _, u := range users {
			if k := r.Choose("repw", len(pwChoices)); k > 0 {
				m := model[u]
				m.PW = pwChoices[k]
				ext := ".user"
				if m.Admin {
					ext = ".admin"
				}
				salt := make([]byte, m.Set.SaltLen())
				salt[0] = byte(k)
				w.fs.Put(cfg.BaseDir+"/"+u+ext, []byte(RefWrite(m.Set, m.PW, salt, m.Stamp)+"\n"+m.Aux), 0o600)
			}
		}
		if r.Choose("shared-password-around-a-name", 6) == 0 {
			// every account holds the same password, and it is built around the name of one of them: the
			// policy verdict on it differs from account to account
			shared := users[0] + []string{"-zkw9", "-Tr7x.Qp", "2024!x"}[r.Choose("shared-pw-form", 3)]
			for k, u := range users {
				m := model[u]
				m.PW = shared
				ext := ".user"
				if m.Admin {
					ext = ".admin"
				}
				salt := make([]byte, m.Set.SaltLen())
				salt[0] = byte(100 + k)
				w.fs.Put(cfg.BaseDir+"/"+u+ext, []byte(RefWrite(m.Set, m.PW, salt, m.Stamp)+"\n"+m.Aux), 0o600)
			}
			r.Count("probe:shared-password-around-a-name")
		}
		mode := []string{"", "local", "local", "remote"}[r.Choose("upgrade-mode", 4)]
		policyType, policyCond := "", ""
		minScore := -1
		if r.Choose("with-policy", 3) == 0 {
			minScore = 1 + r.Choose("min-score", 3)
			policyType, policyCond = "zxcvbn", fmt.Sprintf("score >= %d", minScore)
		}
		passes := func(u, pw string) bool {
			return minScore < 0 || zxcvbn.PasswordStrength(pw, []string{u, "whawty"}).Score >= minScore
		}
		upg := mode
		var master *Agent
		masterBase := ""
		if mode == "remote" {
			upg = "https://master.example/api/update"
			mcfg := cfg
			mcfg.BaseDir = "/srv/whawty/master"
			masterBase = mcfg.BaseDir
			w.populateDirCopy(cfg.BaseDir, mcfg.BaseDir)
			var err error
			// the master upgrades its own records on login (that is what the replica's request triggers)
			if master, err = w.bootAgent(mcfg, "local", policyType, policyCond, ""); err != nil {
				r.Fail("harness/boot-master", "%v", err)
			}
			w.startWeb(master)
			w.rtMaster = master
			w.rtMode = []string{"deliver", "deliver", "refuse", "stall"}[r.Choose("master-behaviour", 4)]
		}
		a, err := w.bootAgent(cfg, upg, policyType, policyCond, "")
		if err != nil {
			r.Fail("harness/boot", "%v", err)
		}
		w.startWeb(a)
		w.startSasl(a)
		w.startLDAP(a)
		vias := []string{"agent", "sasl", "ldap", "basic", "api"}
		drainExtra := func() bool {
			w.rtMu.Lock()
			defer w.rtMu.Unlock()
			if w.rtMode == "stall" || len(w.rtPending) == 0 {
				return false
			}
			p := w.rtPending[0]
			w.rtPending = w.rtPending[1:]
			w.deliverHTTP(p, "deliver")
			return true
		}
		// concurrent epilogue (upgrades off or local, no policy): logins with the current password
		// race with at most one password change per user. A login - and the upgrade it may queue -
		// never changes WHICH password is stored: whatever the interleaving, a user whose change
		// was acknowledged ends up with the new password, everybody else with the old one.
		concurrentPhase := func() {
			if !(mode != "remote" && minScore < 0 && r.Choose("concurrent-epilogue", 2) == 1) {
				return
			}
			type chg struct {
				c      *Call
				old, n string
			}
			changes := map[string]*chg{}
			admins := map[string]bool{}
			aux0 := map[string]string{}
			logPos0 := len(w.fs.Log)
			// records that are already under the default set and get no password change must come
			// out of the phase byte-identical: a login never rewrites a hash that is not upgradeable
			settled := map[string]string{}
			for _, u := range users {
				if _, c, ok := w.fileOf(cfg.BaseDir, u); ok {
					if rec, perr := ParseStrict(strings.SplitN(c, "\n", 2)[0]); perr == nil && uint(rec.ParamID) == cfg.Default {
						settled[u] = c
					}
				}
			}
			// a user whose record is upgradeable right now gets both a change and logins for sure
			focus := ""
			for _, u := range users {
				if _, c, ok := w.fileOf(cfg.BaseDir, u); ok {
					if rec, perr := ParseStrict(strings.SplitN(c, "\n", 2)[0]); perr == nil && uint(rec.ParamID) != cfg.Default && model[u].PW != "" {
						focus = u
						break
					}
				}
			}
			if focus != "" {
				for i := 0; i < 2; i++ {
					w.addClient([]*Call{{Kind: "authenticate", Via: "agent", Agent: a.idx, User: focus, PW: model[focus].PW}})
				}
				r.Count("probe:epilogue-with-upgradeable-user-login-and-change")
			}
			for _, u := range users {
				admins[u], aux0[u] = model[u].Admin, model[u].Aux
				if (u == focus && r.Choose("epi-focus-change", 4) > 0) || (u != focus && r.Choose("epi-change", 2) == 1) {
					c := &Call{Kind: "update", Via: "agent", Agent: a.idx, User: u, PW: "epilogue-pw-of-" + u}
					changes[u] = &chg{c, model[u].PW, c.PW}
					w.addClient([]*Call{c})
				}
			}
			nl := 2 + r.Choose("epi-logins", 6)
			if r.Choose("epi-storm", 3) == 0 {
				nl += 10 + r.Choose("epi-storm-size", 12) // more requests than the queues hold
				// password changes for users that do not exist fail, but occupy the update queue
				// (which local upgrades share) while they wait
				for g, gN := 0, 8+r.Choose("epi-ghost-updates", 8); g < gN; g++ {
					w.addClient([]*Call{{Kind: "update", Via: "agent", Agent: a.idx, User: fmt.Sprintf("ghost-%d", g), PW: "irrelevant"}})
				}
			}
			for i := 0; i < nl; i++ {
				u := users[r.Choose("epi-user", len(users))]
				via := vias[r.Choose("epi-via", len(vias))]
				pw := model[u].PW
				if pw == "" || !utf8.ValidString(pw) {
					via = "agent"
				}
				if pw == "" {
					continue
				}
				w.addClient([]*Call{{Kind: "authenticate", Via: via, Agent: a.idx, User: u, PW: pw}})
			}
			if r.Choose("epi-fs-yields", 2) == 0 {
				w.fsYields() // whoever rewrites a record can be interleaved with a password change at single file operations
			}
			w.runLoop(loopOpts{maxSteps: 2000, wClient: 3, wLoop: 3})
			wedge := w.drain(drainExtra)
			w.fs.Gate = nil
			if wedge != "" {
				r.FailOther("C10", wedgeSignature(wedge), "%s", wedge)
				return
			}
			d2, derr := lib.NewDirFromConfig(a.cfgPath)
			if derr != nil {
				r.Fail("harness/config", "%v", derr)
			}
			for _, u := range users {
				want := model[u].PW
				other := ""
				if ch := changes[u]; ch != nil {
					if ch.c.OK {
						want, other = ch.n, ch.old
					} else {
						other = ch.n
					}
				}
				okW, adm, _, _, _ := d2.Authenticate(u, want)
				if !okW {
					r.Fail("upgrade/changed-the-password", "after logins racing with password changes, %s no longer authenticates with %s (change acknowledged: %v); logins and upgrades never change which password is stored", u, simrt.Q(want), changes[u] != nil && changes[u].c.OK)
				}
				if other != "" && other != want {
					if okO, _, _, _, _ := d2.Authenticate(u, other); okO {
						r.Fail("upgrade/changed-the-password", "after logins racing with password changes, %s authenticates with %s, which is not the stored password", u, simrt.Q(other))
					}
				}
				if okW && adm != admins[u] {
					r.Fail("upgrade/admin-changed", "%s: admin flag changed from %v to %v", u, admins[u], adm)
				}
				for _, ext := range []string{".admin", ".user"} {
					if b, ok := w.fs.Get(cfg.BaseDir + "/" + u + ext); ok {
						if _, rest := FirstLine(string(b)); rest != aux0[u] {
							r.Fail("upgrade/aux-changed", "%s: auxiliary data changed: %s -> %s", u, simrt.Q(aux0[u]), simrt.Q(rest))
						}
					}
				}
				model[u].PW = want
				if changes[u] == nil {
					// without a password change a record is rewritten at most once (the upgrade)
					n := 0
					for _, rec := range w.fs.Log[min(logPos0, len(w.fs.Log)):] {
						if rec.Kind == "rename" && rec.Err == "" && (rec.Real == cfg.BaseDir+"/"+u+".user" || rec.Real == cfg.BaseDir+"/"+u+".admin") {
							n++
						}
					}
					if n > 1 {
						r.Fail("upgrade/unexpected-rewrite", "nobody changed the password of %s, yet its record was rewritten %d times while logins raced (one upgrade is the most a login may cause)", u, n)
					}
				}
				if before, ok := settled[u]; ok && changes[u] == nil {
					if _, after, _ := w.fileOf(cfg.BaseDir, u); after != before {
						r.Fail("upgrade/unexpected-rewrite", "the record of %s was under the default set and nobody changed the password, but logins racing with each other rewrote it: %s -> %s", u, simrt.Q(before), simrt.Q(after))
					}
				}
			}
			r.Count("probe:concurrent-login-and-change-epilogues")
		}
		burstFirst := r.Choose("burst-first", 2) == 1
		if burstFirst {
			concurrentPhase()
		}
		sets := cfg.SetMap()
		def := sets[cfg.Default]
		nlogins := 3 + r.Choose("nlogins", 10)
		if mode == "remote" {
			nlogins += r.Choose("nlogins-remote", 20) // long enough for failures to accumulate, then recover
		}
		var trace []string
		for i := 0; i < nlogins; i++ {
			time.Sleep([]time.Duration{0, time.Second, 3 * time.Second, time.Hour}[r.Choose("clock", 4)])
			if mode != "remote" && len(cfg.Sets) > 1 && r.Choose("default-switched-by-reload", 12) == 0 {
				// the operator switches the default to another (already configured) parameter set and
				// reloads: from now on "upgradeable" and every rewrite refer to the new default
				for _, s := range cfg.Sets {
					if s.ID != cfg.Default {
						cfg.Default = s.ID
						break
					}
				}
				def = sets[cfg.Default]
				w.fs.Put(a.cfgPath, []byte(cfg.YAML()), 0o600)
				simsignal.Raise(syscall.SIGHUP, -1)
				if wedge := w.settle(drainExtra); wedge != "" {
					r.FailOther("C10", wedgeSignature(wedge), "%s", wedge)
					return
				}
				trace = append(trace, fmt.Sprintf("reload: default is now %d", cfg.Default))
				r.Logf("reload: default switched to %d", cfg.Default)
				r.Count("fault:sighup-reload")
			}
			if mode == "remote" && r.Choose("master-changes", 6) == 0 {
				// the master's health changes over time (down, back up, ...)
				w.rtMu.Lock()
				w.rtMode = []string{"deliver", "refuse", "deliver", "stall"}[r.Choose("master-behaviour2", 3)]
				// requests that were parked at a stalled master are lost (their connections die), so
				// that every later change of the master's store belongs to the login under test
				lost := w.rtPending
				w.rtPending = nil
				w.rtMu.Unlock()
				for _, p := range lost {
					w.deliverHTTP(p, "drop")
				}
				synctest.Wait()
				r.Logf("master is now %q", w.rtMode)
			}
			u := users[r.Choose("login-user", len(users))]
			m := model[u]
			right := r.Choose("right-pw", 3) > 0
			pw := m.PW
			if !right {
				pw = []string{"wrong", m.PW + "x", ""}[r.Choose("wrong-pw", 2)]
			}
			via := vias[r.Choose("via", len(vias))]
			if pw == "" && via != "agent" {
				pw = "wrong"
			}
			// upgradeable flag (library view, fresh instance) vs the reference parser
			ext0, content0, _ := w.fileOf(cfg.BaseDir, u)
			rec0, perr := ParseStrict(strings.SplitN(content0, "\n", 2)[0])
			if perr != nil {
				r.Fail("harness/record", "%v", perr)
			}
			d, derr := lib.NewDirFromConfig(a.cfgPath)
			if derr != nil {
				r.Fail("harness/config", "%v", derr)
			}
			okL, _, upgL, _, _ := d.Authenticate(u, m.PW)
			if !okL {
				r.FailOther("C01", "verdict/authenticate", "model password of %s does not authenticate", u)
			}
			if upgL != (uint(rec0.ParamID) != cfg.Default) {
				r.Fail("upgradeable/flag", "record of %s is under set %d, default is %d, authentication reports upgradeable=%v", u, rec0.ParamID, cfg.Default, upgL)
			}
			if mode == "remote" {
				// from here on "the record" is the master's copy: that is what a remote upgrade rewrites
				ext0, content0, _ = w.fileOf(masterBase, u)
				if rec0, perr = ParseStrict(strings.SplitN(content0, "\n", 2)[0]); perr != nil {
					r.Fail("harness/record", "%v", perr)
				}
			}
			listBefore := mode != "remote" && r.Choose("list-full-around-login", 3) == 0
			if listBefore {
				// the administrator's user interface lists the users before and after: what the agent
				// reports is what the directory holds, also for changes the agent made on its own
				lf := &Call{Kind: "list-full", Via: "agent", Agent: a.idx}
				w.addClient([]*Call{lf})
				if wedge := w.settle(drainExtra); wedge != "" {
					r.FailOther("C10", wedgeSignature(wedge), "%s", wedge)
					return
				}
			}
			before := w.fs.Snapshot("/srv/whawty")
			mut0 := w.fs.Mutations
			// in some local-mode logins one write-side file operation of the upgrade fails (full
			// disk, I/O error): the record then stays exactly as it was - or is the complete new one
			faulty := mode == "local" && r.Choose("disk-fault-during-upgrade", 8) == 0
			if faulty {
				at := w.fs.NOps + r.Choose("upgrade-fault-at", 40)
				en := []syscall.Errno{syscall.ENOSPC, syscall.EIO, syscall.EMFILE}[r.Choose("upgrade-fault-errno", 3)]
				fired := false
				w.fs.Plan = func(seq int, kind, real string) *simfs.Fault {
					writeSide := kind == "create" || kind == "write" || kind == "sync" || kind == "rename" || kind == "mkdir" || (kind == "open" && strings.Contains(real, "/.tmp"))
					if fired || seq < at || !writeSide {
						return nil
					}
					fired = true
					r.Count("fault:upgrade-" + en.Error())
					return &simfs.Fault{Errno: en}
				}
			}
			call := &Call{Kind: "authenticate", Via: via, Agent: a.idx, User: u, PW: pw}
			w.addClient([]*Call{call})
			loginAt := time.Now().Unix()
			if wedge := w.settle(drainExtra); wedge != "" {
				if mode == "remote" && w.rtMode == "stall" && call.done.Load() {
					// a stalled master keeps its worker goroutine waiting; that is not a client call
				} else {
					r.FailOther("C10", wedgeSignature(wedge), "%s", wedge)
					return
				}
			}
			w.fs.Plan = nil
			after := w.fs.Snapshot("/srv/whawty")
			diff := simfs.DiffSnap(before, after)
			var real []string
			for _, dd := range diff {
				if !strings.HasSuffix(dd, "/.tmp") {
					real = append(real, dd)
				}
			}
			step := fmt.Sprintf("login %s via %s right=%v (record set %d, default %d) -> ok=%v, changes %v", u, via, right, rec0.ParamID, cfg.Default, call.OK, real)
			trace = append(trace, step)
			r.Logf("#%d %s", i, step)
			if call.OK != right {
				r.FailOther("C04", "frontend/verdict", "login of %s via %s with right=%v returned ok=%v (%s)", u, via, right, call.OK, call.Err)
			}
			if !right && (len(real) > 0 || w.fs.Mutations != mut0) {
				r.Fail("upgrade/failed-login-wrote", "a failed login of %s (via %s) modified the store: %v (%d mutations)", u, via, real, w.fs.Mutations-mut0)
			}
			if mode == "" && w.fs.Mutations != mut0 {
				r.Fail("upgrade/disabled-but-wrote", "upgrades are disabled but a login of %s (via %s, ok=%v) performed %d file-system mutation(s): %v", u, via, call.OK, w.fs.Mutations-mut0, real)
			}
			targetBase := cfg.BaseDir
			if mode == "remote" {
				targetBase = masterBase
				for _, dd := range real {
					if strings.Contains(dd, cfg.BaseDir+"/") {
						r.Fail("upgrade/remote-wrote-replica", "remote mode: a login wrote to the replica's own directory: %s", dd)
					}
				}
			}
			for _, dd := range real {
				p := strings.SplitN(dd, " ", 2)[1]
				if p != targetBase+"/"+u+ext0 {
					r.Fail("upgrade/touched-other-file", "login of %s changed %s", u, dd)
				}
			}
			wasUpgradeable := uint(rec0.ParamID) != cfg.Default
			ext1, content1, ok1 := w.fileOf(targetBase, u)
			if !ok1 || ext1 != ext0 {
				r.Fail("upgrade/admin-flag-changed", "after a login the file of %s is %q (was %q)", u, ext1, ext0)
			}
			line1, rest1 := strings.SplitN(content1, "\n", 2)[0], ""
			if i := strings.Index(content1, "\n"); i >= 0 {
				rest1 = content1[i+1:]
			}
			if content1 != content0 {
				rec1, e := ParseStrict(line1)
				if e != nil || rec1.Algo != def.Algo || uint(rec1.ParamID) != def.ID {
					r.Fail("upgrade/not-default-set", "login of %s rewrote the record to %s (default set is %s)", u, simrt.Q(line1), def.Desc())
				}
				if dg := def.Digest(m.PW, rec1.Salt); dg == nil || string(dg) != string(rec1.Digest) {
					r.Fail("upgrade/password-changed", "the rewritten record of %s does not verify the login password %s under %s", u, simrt.Q(m.PW), def.Desc())
				}
				if rest1 != m.Aux {
					r.Fail("upgrade/aux-changed", "upgrade of %s changed the auxiliary data", u)
				}
				if rec1.Stamp < loginAt {
					r.Fail("upgrade/stamp", "upgraded record carries stamp %d, login was at %d", rec1.Stamp, loginAt)
				}
				if !wasUpgradeable || !right {
					r.Fail("upgrade/unexpected-rewrite", "record of %s rewritten although upgradeable=%v right-password=%v", u, wasUpgradeable, right)
				}
				m.Set = def
				r.Count("probe:upgrade-performed")
			} else if right && wasUpgradeable && passes(u, m.PW) {
				// on an otherwise idle agent the rewrite does happen
				masterOK := mode != "remote" || w.rtMode == "deliver"
				if mode != "" && masterOK && !faulty {
					r.Fail("upgrade/not-performed", "idle agent, mode %q: successful login of %s (via %s) with an upgradeable hash (set %d, default %d) whose password passes the policy, but the record was not rewritten", mode, u, via, rec0.ParamID, cfg.Default)
				}
			}
			if listBefore && !faulty {
				lf := &Call{Kind: "list-full", Via: "agent", Agent: a.idx}
				w.addClient([]*Call{lf})
				if wedge := w.settle(drainExtra); wedge != "" {
					r.FailOther("C10", wedgeSignature(wedge), "%s", wedge)
					return
				}
				r.Count("probe:list-full-after-login")
				for _, lu := range users {
					_, lc, lok := w.fileOf(cfg.BaseDir, lu)
					if !lok {
						continue
					}
					lrec, lerr := ParseStrict(strings.SplitN(lc, "\n", 2)[0])
					got, listed := lf.ListFull[lu]
					if lerr != nil || !lf.OK {
						continue
					}
					if !listed || uint64(got.ParamID) != uint64(lrec.ParamID) || got.LastChanged.Unix() != lrec.Stamp {
						r.Fail("upgrade/list-disagrees-with-directory", "idle agent after a login of %s: list-full reports %s as set %d changed %d (listed=%v), its record in the directory is set %d changed %d", u, lu, got.ParamID, got.LastChanged.Unix(), listed, lrec.ParamID, lrec.Stamp)
					}
				}
			}
			if content1 != content0 && !passes(u, m.PW) {
				r.FailOther("C17", "policy/upgrade-stored-failing-password", "upgrade stored password %s which fails the policy", simrt.Q(m.PW))
			}
			// converged: no longer upgradeable
			if content1 != content0 && mode == "local" {
				_, _, upg2, _, _ := d.Authenticate(u, m.PW)
				if upg2 {
					r.Fail("upgrade/still-upgradeable", "after the upgrade of %s authentication still reports upgradeable", u)
				}
			}
			if mode == "remote" && content1 != content0 && r.Choose("sync", 2) == 1 {
				// the sync job copies the master's directory to the replica
				w.populateDirCopy(masterBase, cfg.BaseDir)
			}
			r.Nontrivial(fmt.Sprintf("%s|%s|%v|%d|%d|%s", mode, via, right, rec0.ParamID, cfg.Default, policyCond))
		}
		if !burstFirst {
			concurrentPhase()
		}
		r.Sample(map[string]any{"upgrade_mode": mode, "policy": policyCond, "config": cfg.Desc(), "logins": trace, "master": w.rtMode})
	})
}
