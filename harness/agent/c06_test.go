//go:build verif

package main

import (
	"encoding/json"
	"fmt"
	"strings"
	"time"

	"github.com/whawty/auth/zzverif/simfs"
	"github.com/whawty/auth/zzverif/simrt"
)

func init() { register("C06", propC06) }

// tokInfo is what the harness knows about a session token it obtained.
type tokInfo struct {
	text     string
	user     string
	admin    bool // administrator at login
	at       time.Time
	instance int // boot number of the web handler that issued it
}

type webReq struct {
	endpoint string // add remove update set-admin list list-full
	cred     string // none garbage expired tampered other-instance user-session admin-session oldpw-wrong oldpw-right both empty-session
	target   string
	body     string
	token    *tokInfo
	newpw    string
	admin    bool
	shape    string
}

func propC06(r *Run) {
	inAgentBubble(r, func(w *AWorld) {
		cfg := GenConfig(r, "/srv/whawty/base")
		w.fs.PutDir(cfg.BaseDir, 0o700)
		def := cfg.SetMap()[cfg.Default]
		// distinctive user names (so that a leaked user list is recognisable in any response body)
		pw := map[string]string{"zq-root-admin": "pw-of-root", "zq-second-admin": "pw-of-second", "zq-plain-user": "pw-of-plain", "zq-other-user": "pw-of-other", "ZQ-Plain-User": "pw-of-upper-plain", "zq-tiny-user": "pw-of-tiny", "zq-plain-user@corp": "pw-of-at-corp", "zq-root-admin@corp": "pw-of-root-at-corp"}
		admins := map[string]bool{"zq-root-admin": true, "zq-second-admin": true}
		i := 0
		for _, u := range sortedKeysA(pw) {
			p := pw[u]
			salt := make([]byte, def.SaltLen())
			salt[0] = byte(len(u))
			ext := ".user"
			if admins[u] {
				ext = ".admin"
			}
			w.fs.Put(cfg.BaseDir+"/"+u+ext, []byte(RefWrite(def, p, salt, 1000+int64(i))+"\n"), 0o600)
			i++
		}
		a, err := w.bootAgent(cfg, "", "", "", "")
		if err != nil {
			r.Fail("harness/boot", "%v", err)
		}
		w.startWeb(a)
		instance := 0
		var toks []*tokInfo
		exists := func(u string) (bool, bool) {
			for _, e := range []string{".admin", ".user"} {
				if _, ok := w.fs.Get(cfg.BaseDir + "/" + u + e); ok {
					return true, e == ".admin"
				}
			}
			return false, false
		}
		// "zq-tiny-user:false:<ts>" and "zq-root-admin:true:<ts>" have the same length on purpose
		names := []string{"zq-root-admin", "zq-second-admin", "zq-plain-user", "zq-other-user", "ZQ-Plain-User", "zq-tiny-user"}
		// login obtains a session token through /api/authenticate (sequential client call + drain)
		login := func(u, p string) *tokInfo {
			c := &Call{Kind: "authenticate", Via: "api", Agent: a.idx, User: u, PW: p}
			w.addClient([]*Call{c})
			if wedge := w.settle(nil); wedge != "" {
				r.FailOther("C10", wedgeSignature(wedge), "%s", wedge)
			}
			ex, adm := exists(u)
			right := ex && pw[u] == p
			if (c.Token != "") != right || c.OK != right {
				r.Fail("token/issued-without-password", "/api/authenticate(%s,%s) status %d token=%v; the password is right=%v", u, simrt.Q(p), c.Status, c.Token != "", right)
			}
			if c.Token == "" {
				return nil
			}
			if c.IsAdmin != adm {
				r.Fail("token/wrong-admin-flag", "login of %s reports admin=%v, store says %v", u, c.IsAdmin, adm)
			}
			// the token opens to that user and flag (in-package view of the handler's factory)
			t := &tokInfo{text: c.Token, user: u, admin: adm, at: time.Now(), instance: instance}
			toks = append(toks, t)
			return t
		}
		nreq := 10 + r.Choose("nreq", 40)
		var trace []string
		for k := 0; k < nreq; k++ {
			switch r.Choose("between", 10) {
			case 9:
				// a login with somebody else's password (in particular: a name that extends another
				// name with '@...', the way LDAP bind names do) never yields a session
				who := []string{"zq-plain-user@corp", "zq-root-admin@corp", "zq-plain-user", "zq-second-admin"}[r.Choose("cross-login-user", 4)]
				other := []string{"zq-plain-user", "zq-root-admin", "zq-other-user", "zq-plain-user@corp"}[r.Choose("cross-login-password-of", 4)]
				if who == other || pw[who] == pw[other] {
					continue
				}
				c := &Call{Kind: "authenticate", Via: "api", Agent: a.idx, User: who, PW: pw[other]}
				w.addClient([]*Call{c})
				if wedge := w.settle(nil); wedge != "" {
					r.FailOther("C10", wedgeSignature(wedge), "%s", wedge)
				}
				r.Logf("#%d login as %s with the password of %s -> %d", k, who, other, c.Status)
				if c.Token != "" || c.OK {
					r.Fail("token/issued-without-password", "/api/authenticate as %s with the password of %s answers %d and issues a session", who, other, c.Status)
				}
				r.Count("probe:cross-logins")
				continue
			case 8:
				// a login request that does not carry both credentials (after whatever came before:
				// handlers share the process, and state left by an earlier complete login must not
				// complete this one) never yields a session
				who := []string{"zq-root-admin", "zq-second-admin", "zq-plain-user"}[r.Choose("shaped-login-user", 3)]
				raw := []string{
					fmt.Sprintf(`{"username":%q}`, who), fmt.Sprintf(`{"username":%q,"password":null}`, who), `{}`, `{"password":null}`,
					fmt.Sprintf(`{"password":%q}`, pw[who]), fmt.Sprintf(`{"username":%q,"password":""}`, who), `null`, `[]`, `not json`,
					fmt.Sprintf(`{"username":%q,"password":`, who), `{"username":null,"password":null}`, fmt.Sprintf(`{"username":null,"password":%q}`, pw[who]),
					fmt.Sprintf(`{"username":%q,"password":42}`, who), ``,
				}[r.Choose("shaped-login-body", 14)]
				var status int
				var m map[string]any
				var respBody string
				done := make(chan struct{})
				go func() {
					status, m, respBody = w.postJSON(a, "/api/authenticate", raw)
					close(done)
				}()
				if wedge := w.drainUntil(done); wedge != "" {
					r.FailOther("C10", wedgeSignature(wedge), "%s", wedge)
				}
				_, gotSession := m["session"]
				r.Logf("#%d shaped login %s -> %d", k, simrt.Q(raw), status)
				if (status >= 200 && status < 300) || gotSession {
					r.Fail("token/issued-without-password", "/api/authenticate with body %s answers %d (session issued: %v): a session is only issued for a submitted, correct password; response %s", simrt.Q(raw), status, gotSession, truncateA(respBody, 200))
				}
				if status == -1 {
					r.Fail("handler/panic/authenticate/shaped", "login body %s makes the handler panic: %s", simrt.Q(raw), truncateA(respBody, 300))
				}
				r.Count("probe:incomplete-login-bodies")
				continue
			case 0:
				d := []time.Duration{time.Second, 300 * time.Second, 598 * time.Second, 602 * time.Second, 100 * time.Second}[r.Choose("clock", 5)]
				time.Sleep(d)
				r.Logf("clock +%v", d)
			case 1:
				// restart of the web frontend: new session key; the store survives
				w.startWeb(a)
				instance++
				r.Count("fault:restart-new-session-key")
				r.Logf("web handler restarted (instance %d)", instance)
			}
			q := webReq{}
			q.endpoint = []string{"add", "remove", "update", "update", "set-admin", "list", "list-full"}[r.Choose("endpoint", 7)]
			creds := []string{"none", "garbage", "expired", "tampered", "other-instance", "user-session", "admin-session", "admin-session", "empty-session"}
			if q.endpoint == "update" {
				creds = append(creds, "oldpw-wrong", "oldpw-right", "oldpw-right", "both")
			}
			q.cred = creds[r.Choose("cred", len(creds))]
			q.target = append(names, "zq-nobody", "../zq-plain-user", "", "ZQ-PLAIN-USER", "zq-plain-user ")[r.Choose("target", 11)]
			q.newpw = fmt.Sprintf("new-pw-%d", k)
			q.admin = r.Choose("admin-flag", 2) == 1
			// obtain the credential
			sessUser := ""
			switch q.cred {
			case "user-session":
				sessUser = []string{"zq-plain-user", "zq-other-user", "ZQ-Plain-User"}[r.Choose("sess-user", 3)]
			case "admin-session", "expired", "tampered", "other-instance", "both":
				sessUser = []string{"zq-root-admin", "zq-second-admin"}[r.Choose("sess-admin", 2)]
			}
			if sessUser != "" {
				// reuse a live token of that user or log in
				for _, t := range toks {
					if t.user == sessUser && t.instance == instance && time.Since(t.at) < 590*time.Second && r.Choose("reuse-token", 2) == 1 {
						q.token = t
					}
				}
				if q.token == nil {
					if ex, _ := exists(sessUser); ex {
						q.token = login(sessUser, pw[sessUser])
					}
				}
				if q.token == nil {
					continue
				}
			}
			if q.token != nil && q.cred != "expired" {
				if age := time.Since(q.token.at); age > 597*time.Second && age < 603*time.Second {
					continue // within a second or two of the lifetime: the statement leaves the verdict open
				}
			}
			sess := ""
			valid := false
			if q.token != nil {
				sess = q.token.text
				valid = q.token.instance == instance && time.Since(q.token.at) <= 599*time.Second
			}
			switch q.cred {
			case "garbage":
				sess, valid = []string{"garbage", "AAAA:BBBB", "not a token", "::"}[r.Choose("garbage", 4)], false
			case "expired":
				if time.Since(q.token.at) <= 601*time.Second {
					time.Sleep(602*time.Second - time.Since(q.token.at))
				}
				valid = false
			case "tampered":
				b := []byte(sess)
				i := r.Choose("tamper-pos", len(b))
				if b[i] == 'A' {
					b[i] = 'B'
				} else {
					b[i] = 'A'
				}
				n1, c1, ok1 := decodeTok(string(b))
				n0, c0, _ := decodeTok(sess)
				if ok1 && string(n1) == string(n0) && string(c1) == string(c0) {
					continue // the change did not alter the decoded content
				}
				sess, valid = string(b), false
			case "other-instance":
				var old *tokInfo
				for _, t := range toks {
					if t.instance != instance {
						old = t
					}
				}
				if old == nil {
					continue
				}
				q.token, sess, valid = old, old.text, false
			case "empty-session":
				sess, valid = "", false
			}
			body := map[string]any{}
			if q.cred != "none" && !strings.HasPrefix(q.cred, "oldpw") {
				body["session"] = sess
			}
			body["username"] = q.target
			switch q.endpoint {
			case "add":
				body["password"], body["admin"] = q.newpw, q.admin
			case "update":
				body["newpassword"] = q.newpw
				switch q.cred {
				case "oldpw-wrong":
					body["oldpassword"] = "definitely-wrong"
				case "oldpw-right", "both":
					body["oldpassword"] = pw[q.target]
					if pw[q.target] == "" {
						body["oldpassword"] = "x"
					}
				}
			case "set-admin":
				body["admin"] = q.admin
			case "list", "list-full":
				delete(body, "username")
			}
			// body shapes
			q.shape = []string{"plain", "plain", "plain", "missing-field", "wrong-type", "extra-field", "not-json", "empty-strings"}[r.Choose("shape", 8)]
			var raw any = body
			switch q.shape {
			case "missing-field":
				for _, f := range []string{"username", "password", "newpassword", "session"} {
					if _, ok := body[f]; ok && r.Choose("drop-"+f, 2) == 1 {
						delete(body, f)
						break
					}
				}
			case "wrong-type":
				if q.endpoint == "list" || q.endpoint == "list-full" {
					body["session"] = 42 // the only field these requests have
				} else {
					body["username"] = 42
				}
			case "extra-field":
				body["isadmin"], body["role"] = true, "admin"
			case "not-json":
				j, _ := json.Marshal(body)
				raw = string(j[:len(j)/2])
			case "empty-strings":
				if _, ok := body["username"]; ok {
					body["username"] = ""
				}
			}
			// ---- the authorisation matrix (independent of the code) ----
			tgt, _ := body["username"].(string)
			bsess, hasSess := body["session"].(string)
			boldpw, _ := body["oldpassword"].(string)
			sessionOK := hasSess && bsess != "" && valid && bsess == sess && q.token != nil
			allowed := false
			wellFormed := q.shape != "not-json" && q.shape != "wrong-type"
			switch q.endpoint {
			case "add", "remove", "set-admin", "list", "list-full":
				allowed = wellFormed && sessionOK && q.token.admin
			case "update":
				if wellFormed && sessionOK && boldpw == "" {
					allowed = q.token.admin || q.token.user == tgt
				}
				if wellFormed && (!hasSess || bsess == "") && boldpw != "" {
					if ex, _ := exists(tgt); ex && pw[tgt] == boldpw {
						allowed = true
					}
				}
			}
			before := w.fs.Snapshot(cfg.BaseDir)
			mut0 := w.fs.Mutations
			var status int
			var respBody string
			done := make(chan struct{})
			go func() {
				status, _, respBody = w.postJSON(a, "/api/"+q.endpoint, raw)
				close(done)
			}()
			if wedge := w.drainUntil(done); wedge != "" {
				r.FailOther("C10", wedgeSignature(wedge), "%s", wedge)
			}
			after := w.fs.Snapshot(cfg.BaseDir)
			diff := simfs.DiffSnap(before, after)
			var real []string
			for _, d := range diff {
				if !strings.HasSuffix(d, "/.tmp") {
					real = append(real, d)
				}
			}
			line := fmt.Sprintf("%s cred=%s target=%s shape=%s -> %d allowed=%v effect=%v", q.endpoint, q.cred, simrt.Q(q.target), q.shape, status, allowed, real)
			trace = append(trace, line)
			r.Logf("#%d %s", k, line)
			r.Nontrivial(fmt.Sprintf("%s|%s|%s|%s|%v", q.endpoint, q.cred, q.target, q.shape, allowed))
			if len(real) > 0 && !allowed {
				r.Fail("authz/unauthorised-effect/"+q.endpoint+"/"+q.cred, "request %s (body %v) changed the store: %v", line, body, real)
			}
			if status == -1 {
				r.Fail("handler/panic/"+q.endpoint+"/"+q.cred, "request %s (body %v) makes the handler panic: %s", line, body, truncateA(respBody, 300))
			}
			if !allowed {
				if status >= 200 && status < 300 {
					r.Fail("authz/refused-class-got-2xx/"+q.endpoint+"/"+q.cred, "request %s must be refused but got status %d", line, status)
				}
				for _, n := range names {
					// the requester's own input may be echoed; other names must not appear
					if !strings.Contains(strings.ToLower(tgt), strings.ToLower(n)) && !strings.Contains(strings.ToLower(q.target), strings.ToLower(n)) && strings.Contains(respBody, n) {
						r.Fail("authz/user-list-disclosed/"+q.endpoint, "refused request %s discloses user %s: %s", line, n, truncateA(respBody, 200))
					}
				}
				if w.fs.Mutations != mut0 {
					r.Fail("authz/refused-but-wrote/"+q.endpoint, "refused request %s performed %d file-system mutations", line, w.fs.Mutations-mut0)
				}
			}
			// keep the password table in step with authorised effects
			if allowed && status == 200 {
				switch q.endpoint {
				case "add":
					pw[tgt] = q.newpw
				case "update":
					if np, _ := body["newpassword"].(string); np != "" {
						pw[tgt] = np
					}
				case "remove":
					delete(pw, tgt)
				}
			}
		}
		// concurrent phase: administrator reads and refused requests of ordinary users in flight
		// at the same time (handlers share the session factory); statement boundaries in the
		// handler code are scheduling points, so one handler can be suspended in the middle of
		// checking its session while another one runs
		if ex, _ := exists("zq-root-admin"); ex {
			adminTok := login("zq-root-admin", pw["zq-root-admin"])
			var userTok *tokInfo
			for _, u := range []string{"zq-tiny-user", "zq-plain-user", "zq-other-user", "ZQ-Plain-User"} {
				if ex, adm := exists(u); ex && !adm && userTok == nil {
					userTok = login(u, pw[u])
				}
			}
			if adminTok != nil && userTok != nil {
				before := w.fs.Snapshot(cfg.BaseDir)
				type exp struct {
					c       *Call
					refused bool
				}
				var exps []exp
				for i, iN := 0, 2+r.Choose("conc-clients", 4); i < iN; i++ {
					var plan []*Call
					for k, kN := 0, 1+r.Choose("conc-calls", 2); k < kN; k++ {
						if r.Choose("conc-who", 2) == 0 {
							c := &Call{Kind: []string{"list", "list-full"}[r.Choose("conc-admin-kind", 2)], Via: "api", Agent: a.idx, Session: adminTok.text}
							plan = append(plan, c)
							exps = append(exps, exp{c, false})
						} else {
							kind := []string{"set-admin", "list", "list-full", "add", "remove"}[r.Choose("conc-user-kind", 5)]
							c := &Call{Kind: kind, Via: "api", Agent: a.idx, Session: userTok.text, User: userTok.user, PW: "conc-pw", Admin: true}
							if kind == "add" {
								c.User = "zq-intruder"
							}
							if kind == "remove" {
								c.User = "zq-second-admin"
							}
							plan = append(plan, c)
							exps = append(exps, exp{c, true})
						}
					}
					w.addClient(plan)
				}
				// logins in flight at the same time: a session is issued exactly for the requests that
				// carry a right password, and names the user and admin status of that very request
				type lexp struct {
					c     *Call
					right bool
					admin bool
				}
				var logins []lexp
				for i, iN := 0, r.Choose("conc-logins", 5); i < iN; i++ {
					u := names[r.Choose("conc-login-user", len(names))]
					ex, adm := exists(u)
					p := pw[u]
					right := ex
					if r.Choose("conc-login-right", 2) == 0 {
						p, right = "not-the-password", false
					}
					c := &Call{Kind: "authenticate", Via: "api", Agent: a.idx, User: u, PW: p}
					logins = append(logins, lexp{c, right, adm})
					w.addClient([]*Call{c})
				}
				w.runLoop(loopOpts{maxSteps: 6000, wClient: 2, wLoop: 5})
				if wedge := w.settle(nil); wedge != "" {
					r.FailOther("C10", wedgeSignature(wedge), "%s", wedge)
					return
				}
				for _, l := range logins {
					if (l.c.Token != "") != l.right {
						r.Fail("token/issued-without-password", "with %d logins in flight, %s got status %d, session issued: %v; its own password is right: %v", len(logins), l.c, l.c.Status, l.c.Token != "", l.right)
					}
					if l.c.Token != "" && l.c.IsAdmin != l.admin {
						r.Fail("token/wrong-admin-flag", "with %d logins in flight, %s is answered admin=%v, the store says %v", len(logins), l.c, l.c.IsAdmin, l.admin)
					}
					if l.c.Token != "" {
						toks = append(toks, &tokInfo{text: l.c.Token, user: l.c.User, admin: l.admin, at: time.Now(), instance: instance})
					}
				}
				r.Add("probe:concurrent-logins", len(logins))
				for _, e := range exps {
					if e.c.Status == -1 {
						r.Fail("handler/panic/concurrent", "%s makes the handler panic: %s", e.c, truncateA(e.c.Body, 200))
					}
					if e.refused && e.c.Status >= 200 && e.c.Status < 300 {
						r.Fail("authz/concurrent-request-took-another-identity/"+e.c.Kind, "with %d requests in flight, %s carrying the session of ordinary user %s was answered %d: %s", len(exps), e.c, userTok.user, e.c.Status, truncateA(e.c.Body, 200))
					}
					if !e.refused && e.c.Status != 200 {
						r.Count("probe:concurrent-admin-read-refused")
					}
				}
				if d := diffNoTmp(before, w.fs.Snapshot(cfg.BaseDir)); len(d) > 0 {
					r.Fail("authz/unauthorised-effect/concurrent", "refused requests of an ordinary user, in flight together with administrator reads, changed the store: %v", d)
				}
				r.Add("probe:concurrent-api-requests", len(exps))
			}
		}
		// last phase (a third of the runs): an administrator removes every account, its own last - the
		// API allows that. Nobody can hold a session for the emptied store, so from then on every
		// management request is one without a valid credential: refused, nothing disclosed, nothing written
		if ex, _ := exists("zq-root-admin"); ex && r.Choose("empty-the-store", 3) == 0 {
			if adminTok := login("zq-root-admin", pw["zq-root-admin"]); adminTok != nil {
				var present []string
				for _, u := range sortedKeysA(pw) {
					if ex, _ := exists(u); ex && u != "zq-root-admin" {
						present = append(present, u)
					}
				}
				for _, u := range []string{"zq-nobody", "zq-mallory"} { // may have been added by earlier requests
					if ex, _ := exists(u); ex {
						present = append(present, u)
					}
				}
				present = append(present, "zq-root-admin")
				for _, u := range present {
					c := &Call{Kind: "remove", Via: "api", Agent: a.idx, User: u, Session: adminTok.text}
					w.addClient([]*Call{c})
					if wedge := w.settle(nil); wedge != "" {
						r.FailOther("C10", wedgeSignature(wedge), "%s", wedge)
						return
					}
				}
				left := 0
				for p := range w.fs.Snapshot(cfg.BaseDir) {
					if strings.HasSuffix(p, ".user") || strings.HasSuffix(p, ".admin") {
						left++
					}
				}
				if left == 0 {
					r.Count("probe:store-emptied-through-the-api")
					before := w.fs.Snapshot(cfg.BaseDir)
					for i, iN := 0, 3+r.Choose("requests-on-empty-store", 6); i < iN; i++ {
						kind := []string{"add", "add", "update", "set-admin", "remove", "list", "list-full"}[r.Choose("empty-store-endpoint", 7)]
						c := &Call{Kind: kind, Via: "api", Agent: a.idx, User: []string{"zq-mallory", "zq-root-admin"}[r.Choose("empty-store-target", 2)], PW: "a-new-password", Admin: true}
						switch r.Choose("empty-store-credential", 4) {
						case 0:
							// no credential at all
						case 1:
							c.Session = "garbage"
						case 2:
							c.Session = adminTok.text // the session of the administrator that no longer exists: not checked here (the statement speaks of the status at login), only that nothing unauthorised happens without it
							continue
						case 3:
							if kind == "update" {
								c.OldPW = pw["zq-root-admin"]
							}
						}
						w.addClient([]*Call{c})
						if wedge := w.settle(nil); wedge != "" {
							r.FailOther("C10", wedgeSignature(wedge), "%s", wedge)
							return
						}
						trace = append(trace, fmt.Sprintf("emptied store: %s -> %d", c, c.Status))
						r.Logf("emptied store: %s -> %d", c, c.Status)
						if c.OK {
							r.Fail("authz/refused-class-got-2xx/"+kind+"/emptied-store", "the store has no accounts left; %s without a valid credential was answered %d: %s", c, c.Status, truncateA(c.Body, 200))
						}
					}
					if d := diffNoTmp(before, w.fs.Snapshot(cfg.BaseDir)); len(d) > 0 {
						r.Fail("authz/unauthorised-effect/emptied-store", "requests without a valid credential changed the emptied store: %v", d)
					}
				}
			}
		}
		r.Steps += nreq
		r.Sample(map[string]any{"requests": trace[:min(len(trace), 12)], "tokens": len(toks), "restarts": instance})
	})
}

func truncateA(s string, n int) string {
	if len(s) > n {
		return s[:n] + "..."
	}
	return s
}

// drainUntil drives the agent fairly until done is closed (a request issued by the root).
func (w *AWorld) drainUntil(done chan struct{}) string {
	c := &Call{Kind: "http-request", Via: "root"}
	w.calls = append(w.calls, c)
	go func() { <-done; c.done.Store(true) }()
	return w.settle(nil)
}
