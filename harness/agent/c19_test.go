//go:build verif

package main

import (
	"path/filepath"
	"fmt"
	"sort"
	"strings"
	"syscall"
	"time"

	"github.com/whawty/auth/zzverif/simexec"
	"github.com/whawty/auth/zzverif/simfs"
	"github.com/whawty/auth/zzverif/simsignal"
)

func init() { register("C19", propC19) }

type hookEnt struct {
	name     string
	kind     string // file symlink dir fifo
	perm     uint32
	eligible bool
	beh      string
}

func propC19(r *Run) {
	inAgentBubble(r, func(w *AWorld) {
		cfg := GenConfig(r, "/srv/whawty/base")
		model := w.populateDir(cfg, 2+r.Choose("nusers", 2), false)
		users := sortedKeysA(model)
		// the agent's own environment may carry a variable of that name (started from another
		// instance's hook, or set by mistake): the hooks still see the store they are called for
		inheritedN := 0
		if r.Choose("inherited-store-variable", 3) == 0 {
			simfs.Env["WHAWTY_AUTH_STORE"] = []string{"/etc/whawty/auth-store.yaml", "/srv/whawty/elsewhere", ""}[r.Choose("inherited-value", 3)]
			simfs.Env["HOME"] = "/root"
			inheritedN = 1
			r.Count("probe:store-variable-inherited")
		}
		hdir := "/etc/whawty/hooks.d"
		dirPerm := []uint32{0o755, 0o755, 0o700, 0o775, 0o757, 0o777, 0o1777, 0o1757, 0o1755, 0o2775, 0o2777, 0o1703}[r.Choose("hooks-dir-perm", 12)]
		w.fs.PutDir(hdir, 0o755)
		w.fs.PutDir("/usr/local/bin", 0o755)
		w.fs.Put("/usr/local/bin/real-hook", []byte("#!/bin/sh\n"), 0o755)
		var ents []hookEnt
		beh := map[string]simexec.Behaviour{}
		n := 1 + r.Choose("nentries", 5)
		for i := 0; i < n; i++ {
			e := hookEnt{}
			e.name = []string{"10-sync", "20-mail", "30-ldap", ".hidden", "README", "z z"}[i]
			if r.Choose("hidden-name", 6) == 0 {
				e.name = "." + e.name
			}
			e.kind = []string{"file", "file", "file", "symlink", "dir", "fifo"}[r.Choose("ent-kind", 6)]
			e.perm = []uint32{0o755, 0o700, 0o644, 0o600, 0o100, 0o010, 0o001, 0o000, 0o777, 0o4755}[r.Choose("ent-perm", 10)]
			p := hdir + "/" + e.name
			switch e.kind {
			case "file":
				w.fs.Put(p, []byte("#!/bin/sh\n"), fsMode(e.perm&0o777))
			case "symlink":
				w.fs.PutSymlink("/usr/local/bin/real-hook", p)
			case "dir":
				w.fs.PutDir(p, fsMode(e.perm&0o777|0o100))
			case "fifo":
				w.fs.PutFifo(p, fsMode(e.perm&0o777))
			}
			hidden := strings.HasPrefix(e.name, ".")
			e.eligible = !hidden && dirPerm&0o002 == 0 && ((e.kind == "file" && e.perm&0o111 != 0) || e.kind == "symlink")
			e.beh = []string{"fast", "fast", "failing", "hanging", "nostart"}[r.Choose("hook-behaviour", 5)]
			switch e.beh {
			case "fast":
				beh[p] = simexec.Behaviour{ExitAfter: 20 * time.Millisecond}
			case "failing":
				beh[p] = simexec.Behaviour{ExitAfter: time.Second, ExitCode: 3}
			case "hanging":
				beh[p] = simexec.Behaviour{Hang: true, IgnoreTerm: r.Choose("ignores-sigterm", 2) == 1}
			case "nostart":
				beh[p] = simexec.Behaviour{StartErr: fmt.Errorf("permission denied")}
			}
			ents = append(ents, e)
		}
		w.fs.SetPerm(hdir, fsMode(dirPerm))
		w.ex.Behave = func(path string) simexec.Behaviour { return beh[path] }
		hooksArg := hdir
		if r.Choose("relative-hooks-dir", 4) == 0 {
			// the operator gave --hooks-dir relative to the directory the agent was started in
			w.fs.Cwd = "/etc/whawty"
			hooksArg = "hooks.d"
			r.Count("probe:relative-hooks-directory")
		}
		a, err := w.bootAgent(cfg, "", "", "", hooksArg)
		if err != nil {
			r.Fail("harness/boot", "%v", err)
		}
		var eligible []string
		for _, e := range ents {
			if e.eligible {
				eligible = append(eligible, hdir+"/"+e.name)
			}
		}
		sort.Strings(eligible)
		r.Logf("hooks dir perm %o entries %+v eligible %v", dirPerm, ents, eligible)

		// clients issuing management calls (successes and failures)
		nclients := 1 + r.Choose("nclients", 3)
		pwn := 0
		for i := 0; i < nclients; i++ {
			var plan []*Call
			for k, kN := 0, 1+r.Choose("ncalls", 5); k < kN; k++ {
				u := users[r.Choose("call-user", len(users))]
				c := &Call{Agent: a.idx, Via: "agent", User: u}
				switch r.Choose("call-kind", 7) {
				case 0, 1:
					c.Kind, c.PW = "update", fmt.Sprintf("pw-%d", pwn)
					pwn++
				case 2:
					c.Kind, c.User, c.PW = "add", []string{"newbie", u}[r.Choose("add-name", 2)], "x"
				case 3:
					c.Kind, c.Admin = "set-admin", r.Choose("admin", 2) == 1
					if u == "root" {
						c.Admin = true
					}
				case 4:
					c.Kind, c.User = "remove", []string{"newbie", "ghost"}[r.Choose("rm-name", 2)]
				case 5:
					c.Kind, c.User, c.PW = "update", "ghost", "x" // fails
				case 6:
					c.Kind, c.PW = "authenticate", "wrong" // read-only
				}
				plan = append(plan, c)
			}
			w.addClient(plan)
		}
		// reload to a second directory at some point (optional)
		cfgB := cfg
		cfgB.BaseDir = "/srv/whawty/baseB"
		reloads := 0
		var extra func() []action
		if r.Choose("with-reload", 3) == 0 {
			extra = func() []action {
				if reloads >= 2 {
					return nil
				}
				return []action{{3, "rewrite config to the other base directory and SIGHUP", func() {
					target := cfgB
					if reloads%2 == 1 {
						target = cfg
					}
					cur := a.st.dir.BaseDir
					if cur != target.BaseDir {
						w.populateDirCopy(cur, target.BaseDir)
						if r.Choose("reload-target-invalid", 3) == 0 {
							// the new directory fails the consistency check: the reload is refused, the agent -
							// and therefore every hook - stays with the directory it has
							w.fs.Put(target.BaseDir+"/README", []byte("not a hash file"), 0o600)
							r.Count("fault:reload-refused")
						} else {
							w.fs.Delete(target.BaseDir + "/README")
						}
					}
					w.fs.Put(a.cfgPath, []byte(target.YAML()), 0o600)
					simsignal.Raise(syscall.SIGHUP, -1)
					reloads++
					r.Count("fault:sighup-reload")
				}}}
			}
		}
		// the operator loosens the hooks directory to world-writable while the agent runs: from
		// then on nothing in it may be executed (liveness of earlier changes is not judged in
		// such a run, the safety clauses are)
		chmodStep := -1
		if dirPerm&0o002 == 0 && r.Choose("chmod-hooks-dir-while-running", 6) == 0 {
			prev := extra
			extra = func() []action {
				var out []action
				if prev != nil {
					out = prev()
				}
				if chmodStep < 0 {
					out = append(out, action{3, "chmod o+w on the hooks directory", func() {
						chmodStep = w.step
						w.fs.SetPerm(hdir, fsMode(dirPerm|0o002))
						r.Count("fault:hooks-dir-made-world-writable")
					}})
				}
				return out
			}
		}
		clockMenu := []time.Duration{time.Nanosecond, time.Millisecond, time.Second, 2500 * time.Millisecond, 5*time.Second - time.Nanosecond, 5 * time.Second, 5*time.Second + time.Nanosecond, 60 * time.Second, 61 * time.Second}
		o := loopOpts{maxSteps: 600, wClient: 3, wLoop: 4, wClock: 3, wExtra: 1, clockMenu: clockMenu, extra: extra}
		if r.Choose("fs-yields", 6) == 0 {
			w.fsYields() // the timer, the hook runner and a reload can land between two file operations of an update
		}
		w.runLoop(o)
		if wedge := w.drain(nil); wedge != "" {
			r.Fail("hooks/call-delayed-by-hook", "a management call did not return: %s", wedge)
		}
		if r.Choose("burst-of-changes", 5) == 0 {
			// a burst of changes, more than any queue between the dispatcher and the hook runner holds,
			// all within one instant: the first one starts a round (whose hooks may hang), the others
			// are answered without any time passing
			var plan []*Call
			for k, kN := 0, 36+r.Choose("burst-len", 10); k < kN; k++ {
				plan = append(plan, &Call{Agent: a.idx, Via: "agent", Kind: "remove", User: fmt.Sprintf("ghost-%d", k)})
			}
			w.addClient(plan)
			r.Count("probe:burst-of-changes")
			if stalled := w.quiesce(nil); stalled != "" {
				wedge := w.drain(nil)
				r.Fail("hooks/call-delayed-by-hook", "a burst of %d changes: calls were not answered until time passed (a hook that has not finished delays the agent): %s %s", len(plan), stalled, wedge)
			}
		}
		baseOf := func(step int) string { return w.baseOf(a.idx, step) }
		// let hanging hooks reach their time limit
		time.Sleep(2 * time.Minute)
		w.drain(nil)

		procs := w.ex.Snapshot()
		starts := map[string][]*simexec.Proc{} // per hook path, in start order
		for _, p := range procs {
			starts[p.Path] = append(starts[p.Path], p)
			el := false
			for _, e := range eligible {
				if e == p.Path {
					el = true
				}
			}
			if !el {
				r.Fail("hooks/ineligible-executed", "%s was executed (hooks dir mode %o, entries %+v)", p.Path, dirPerm, ents)
			}
			if chmodStep >= 0 && p.Step > chmodStep+80 {
				// a round that was already under way when the mode changed may finish; 80 scheduler
				// steps later every round has looked at the directory again
				r.Fail("hooks/ineligible-executed", "%s was executed at step %d although the hooks directory has been world-writable since step %d", p.Path, p.Step, chmodStep)
			}
			if len(p.Args) != 2 || (p.Args[0] != p.Path && filepath.Join(w.fs.Cwd, p.Args[0]) != p.Path) || p.Args[1] != "update" {
				r.Fail("hooks/argv", "%s started with argv %q, expected [path update]", p.Path, p.Args)
			}
			envN := 0
			for _, e := range p.Env {
				if strings.HasPrefix(e, "WHAWTY_AUTH_STORE=") {
					envN++
				}
			}
			if envN < 1 || envN > 1+inheritedN {
				r.Fail("hooks/env-missing", "%s started with %d WHAWTY_AUTH_STORE variables", p.Path, envN)
			}
			if p.Killed && p.KilledAt.Sub(p.StartAt) < time.Minute {
				r.Fail("hooks/killed-early", "%s killed %v after its start (time limit is one minute)", p.Path, p.KilledAt.Sub(p.StartAt))
			}
			if beh[p.Path].Hang && !p.StartFailed && !p.Killed {
				r.Fail("hooks/hanging-not-killed", "%s hangs and was never killed (started %v ago)", p.Path, time.Since(p.StartAt))
			}
		}
		// acknowledged changes, each with the scheduler step at which its file operation happened
		type change struct {
			step int
			c    *Call
		}
		var changes []change
		for _, c := range w.calls {
			if !c.done.Load() {
				continue
			}
			ack := false
			switch c.Kind {
			case "add", "update", "set-admin":
				ack = c.OK
			case "remove":
				ack = true // remove always reports success
			}
			if !ack {
				continue
			}
			// the change itself happened at the last rename/unlink of the user's file within the call
			at := -1
			for _, ext := range []string{".user", ".admin"} {
				for _, b := range []string{cfg.BaseDir, cfgB.BaseDir} {
					for _, st := range w.mutSteps[b+"/"+c.User+ext] {
						if st >= c.Invoke && st <= c.Return && st > at {
							at = st
						}
					}
				}
			}
			if at < 0 {
				at = c.Invoke // a no-op change (set-admin to the current value, remove of a missing user): notified all the same
			}
			changes = append(changes, change{at, c})
		}
		sort.Slice(changes, func(i, j int) bool { return changes[i].step < changes[j].step })
		obligations := changes
		if chmodStep >= 0 {
			obligations = nil
		}
		for _, ch := range obligations {
			for _, e := range eligible {
				satisfied := false
				why := "it was not started at or after the change"
				for _, p := range starts[e] {
					if p.Step < ch.step {
						continue
					}
					// accepted: the base directory in force at any moment between the change and the
					// start (a reload in between makes both defensible); a stale value is not
					ok := false
					for s := ch.step; s <= p.Step && !ok; s++ {
						// what the hook sees: of several entries for one name the last one counts
						if ev := storeEnv(p.Env); len(ev) > 0 && ev[len(ev)-1] == "WHAWTY_AUTH_STORE="+baseOf(s) {
							ok = true
						}
					}
					if ok {
						satisfied = true
						break
					}
					why = fmt.Sprintf("its start at step %d carries %v, the store in force was %s at the change and %s at the start", p.Step, storeEnv(p.Env), baseOf(ch.step), baseOf(p.Step))
				}
				if !satisfied {
					sig := "hooks/change-not-notified"
					if strings.Contains(why, "store in force") {
						sig = "hooks/wrong-store-after-reload"
					}
					r.Fail(sig, "acknowledged %s (file operation at step %d) is not followed by a start of hook %s: %s", ch.c, ch.step, e, why)
				}
			}
		}
		// per hook: never more starts than changes so far (failed and read-only calls trigger nothing),
		// and at most two starts in any half-open window of 5 s (leading + trailing edge)
		nrounds := 0
		for _, e := range eligible {
			ps := starts[e]
			if len(ps) > nrounds {
				nrounds = len(ps)
			}
			for i, p := range ps {
				nch := 0
				for _, ch := range changes {
					if ch.step <= p.Step {
						nch++
					}
				}
				if i+1 > nch {
					r.Fail("hooks/round-without-change", "start #%d of %s at step %d, but only %d change(s) had happened by then (failed and read-only calls must trigger nothing)", i+1, e, p.Step, nch)
				}
				cnt := 0
				for j := i; j < len(ps); j++ {
					if ps[j].StartAt.Sub(p.StartAt) < 5*time.Second {
						cnt++
					}
				}
				if cnt > 2 {
					r.Fail("hooks/not-coalesced", "%s started %d times within 5 s", e, cnt)
				}
			}
		}
		type roundT struct{}
		rounds := make([]roundT, nrounds)
		if len(rounds) >= 2 {
			r.Count("probe:two-or-more-rounds")
		}
		if len(changes) >= 2 && len(rounds) < len(changes) {
			r.Count("probe:burst-coalesced")
		}
		r.Nontrivial(fmt.Sprintf("%x|%v|%d|%d", w.schedHash, ents, len(changes), len(rounds)))
		r.Sample(map[string]any{"hooks_dir_mode": fmt.Sprintf("%o", dirPerm), "entries": fmt.Sprintf("%+v", ents), "eligible": eligible, "acknowledged_changes": len(changes), "rounds": len(rounds), "process_starts": len(procs), "reloads": reloads})
	})
}

func storeEnv(env []string) []string {
	var out []string
	for _, e := range env {
		if strings.HasPrefix(e, "WHAWTY_AUTH_STORE=") {
			out = append(out, e)
		}
	}
	return out
}

