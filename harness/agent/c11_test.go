//go:build verif

package main

import (
	"unicode/utf8"
	"fmt"
	"sort"
	"strings"
	"time"

	"github.com/anishathalye/porcupine"
)

func init() { register("C11", propC11) }

// The sequential store semantics as a porcupine model. State: "user=pw|admin;..." sorted.
type seqUser struct {
	PW    string
	Admin bool
}

func encState(m map[string]seqUser) string {
	var ks []string
	for k := range m {
		ks = append(ks, k)
	}
	sort.Strings(ks)
	var sb strings.Builder
	for _, k := range ks {
		fmt.Fprintf(&sb, "%s=%s|%v;", k, m[k].PW, m[k].Admin)
	}
	return sb.String()
}

func decState(s string) map[string]seqUser {
	m := map[string]seqUser{}
	for _, e := range strings.Split(s, ";") {
		if e == "" {
			continue
		}
		i := strings.Index(e, "=")
		j := strings.LastIndex(e, "|")
		m[e[:i]] = seqUser{e[i+1 : j], e[j+1:] == "true"}
	}
	return m
}

type seqIn struct {
	Kind  string
	User  string
	PW    string
	Admin bool
}

type seqOut struct {
	OK       bool
	IsAdmin  bool
	HasAdmin bool // the frontend reports the admin flag (agent interface, API)
	List    string // encoded list (user=admin;...) for list calls
}

func seqStep(state, input, output interface{}) (bool, interface{}) {
	st := decState(state.(string))
	in := input.(seqIn)
	out := output.(seqOut)
	u, exists := st[in.User]
	switch in.Kind {
	case "reauth":
		// an update request that carries only the old password: answered like a login, changes nothing
		return out.OK == (exists && u.PW == in.PW), state
	case "authenticate":
		want := exists && u.PW == in.PW
		if out.OK != want {
			return false, state
		}
		if want && out.HasAdmin && out.IsAdmin != u.Admin {
			return false, state
		}
		return true, state
	case "add":
		want := !exists
		if out.OK != want {
			return false, state
		}
		if want {
			st[in.User] = seqUser{in.PW, in.Admin}
		}
		return true, encState(st)
	case "update":
		if out.OK != exists {
			return false, state
		}
		if exists {
			u.PW = in.PW
			st[in.User] = u
		}
		return true, encState(st)
	case "remove":
		if !out.OK {
			return true, state // refused by the HTTP API (session expired): no effect
		}
		delete(st, in.User)
		return true, encState(st)
	case "set-admin":
		if out.OK != exists {
			return false, state
		}
		if exists {
			u.Admin = in.Admin
			st[in.User] = u
		}
		return true, encState(st)
	case "list":
		var ks []string
		for k := range st {
			ks = append(ks, k)
		}
		sort.Strings(ks)
		var sb strings.Builder
		for _, k := range ks {
			fmt.Fprintf(&sb, "%s=%v;", k, st[k].Admin)
		}
		return out.OK && out.List == sb.String(), state
	case "check":
		any := false
		for _, v := range st {
			if v.Admin {
				any = true
			}
		}
		return out.OK == any, state
	}
	return false, state
}

func callToOp(c *Call) porcupine.Operation {
	in := seqIn{Kind: c.Kind, User: c.User, PW: c.PW, Admin: c.Admin}
	out := seqOut{OK: c.OK, IsAdmin: c.IsAdmin, HasAdmin: c.Via == "agent" || c.Via == "api"}
	if c.Kind == "list" {
		var ks []string
		for k := range c.List {
			ks = append(ks, k)
		}
		sort.Strings(ks)
		var sb strings.Builder
		for _, k := range ks {
			fmt.Fprintf(&sb, "%s=%v;", k, c.List[k].IsAdmin)
		}
		out.List = sb.String()
	}
	if c.Kind == "remove" {
		out.OK = c.Via != "api" || c.Status == 200
	}
	return porcupine.Operation{ClientId: c.Client, Input: in, Call: int64(2 * c.Invoke), Output: out, Return: int64(2*c.Return + 1)}
}

func propC11(r *Run) {
	var hist []*Call
	var initial string
	var desc map[string]any
	inAgentBubble(r, func(w *AWorld) {
		cfg := twoSetConfig(r, "/srv/whawty/base")
		nusers := 1 + r.Choose("nusers", 3)
		model := w.populateDir(cfg, nusers, true)
		users := sortedKeysA(model)
		st := map[string]seqUser{}
		for u, m := range model {
			st[u] = seqUser{m.PW, m.Admin}
		}
		initial = encState(st)
		mode := []string{"", "local", "local"}[r.Choose("upgrade-mode", 3)]
		a, err := w.bootAgent(cfg, mode, "", "", "")
		if err != nil {
			r.Fail("harness/boot", "%v", err)
		}
		vias := []string{"agent"}
		if r.Choose("frontends", 2) == 1 {
			w.startWeb(a)
			w.startSasl(a)
			w.startLDAP(a)
			vias = []string{"agent", "sasl", "ldap", "basic", "api"}
		}
		// an administrator session for management requests through the web API (obtained before
		// the concurrent phase; it is part of the history like every other call)
		adminToken := ""
		if len(vias) > 1 {
			for _, u := range users {
				if model[u].Admin && model[u].PW != "" && utf8.ValidString(model[u].PW) {
					l := &Call{Kind: "authenticate", Via: "api", Agent: a.idx, User: u, PW: model[u].PW}
					w.addClient([]*Call{l})
					w.settle(nil)
					adminToken = l.Token
					break
				}
			}
		}
		nclients := 2 + r.Choose("nclients", 5)
		pwn := 0
		total := 0
		for i := 0; i < nclients && total < 34; i++ {
			n := 1 + r.Choose("ncalls", 6)
			var plan []*Call
			for k := 0; k < n && total < 34; k++ {
				u := users[r.Choose("call-user", len(users))]
				c := &Call{Agent: a.idx, User: u, Via: "agent"}
				switch r.Choose("call-kind", 13) {
				case 12:
					c.Kind, c.PW = "authenticate", model[u].PW
					if len(vias) > 1 && c.PW != "" {
						c.Kind, c.Via = "reauth", "api"
					}
					if pwn > 0 && r.Choose("pw-choice", 2) == 1 {
						c.PW = fmt.Sprintf("pw-%02d", r.Choose("which-pw", pwn))
					}
				case 0, 1, 2, 3, 4:
					c.Kind = "authenticate"
					c.Via = vias[r.Choose("via", len(vias))]
					// any password ever written for this user (or about to be), or the initial one
					c.PW = model[u].PW
					if pwn > 0 && r.Choose("pw-choice", 2) == 1 {
						c.PW = fmt.Sprintf("pw-%02d", r.Choose("which-pw", pwn))
					}
				case 5, 6, 7:
					c.Kind = "update"
					c.PW = fmt.Sprintf("pw-%02d", pwn) // every written password is unique
					pwn++
					if total+3 <= 34 && r.Choose("same-login-around-the-change", 4) == 0 {
						// somebody tries the new password a moment too early and again right after the
						// change, through the same frontend: the second answer is the store's, not a
						// remembered one
						via := vias[r.Choose("via", len(vias))]
						plan = append(plan, &Call{Kind: "authenticate", Via: via, Agent: a.idx, User: u, PW: c.PW}, c,
							&Call{Kind: "authenticate", Via: via, Agent: a.idx, User: u, PW: c.PW})
						total += 3
						r.Count("probe:same-login-before-and-after-a-change")
						continue
					}
				case 8:
					c.Kind = "add"
					c.User = []string{"newbie", u}[r.Choose("add-name", 2)]
					c.PW = fmt.Sprintf("pw-%02d", pwn)
					c.Admin = r.Choose("admin", 2) == 1
					pwn++
				case 9:
					c.Kind = "remove"
					c.User = []string{"newbie", u}[r.Choose("rm-name", 2)]
					if adminToken != "" && r.Choose("rm-via-api", 2) == 1 {
						c.Via, c.Session = "api", adminToken // an administrator removes the user through the web API
					}
				case 10:
					c.Kind, c.Admin = "set-admin", r.Choose("admin", 2) == 1
				case 11:
					c.Kind = []string{"list", "check"}[r.Choose("ro-kind", 2)]
				}
				plan = append(plan, c)
				total++
			}
			w.addClient(plan)
		}
		if r.Choose("fs-yields", 4) == 0 {
			w.fsYields()
		}
		if len(vias) > 1 && r.Choose("net-yields", 4) == 0 {
			w.netYields()
		}
		slow := []int{1, 2, 5, 15}[r.Choose("dispatcher-slowness", 4)]
		w.runLoop(loopOpts{maxSteps: 1200, wClient: slow * 3, wLoop: 4, wClock: 1})
		if wedge := w.drain(nil); wedge != "" {
			for _, fe := range []string{"sasl", "ldap", "basic", "api"} {
				if strings.Contains(wedge, "["+fe+"]") && !strings.Contains(wedge, "is NOT back at its select") {
					// the dispatcher is fine but a connection never got its own answer
					r.Fail("frontend/connection-never-answered/"+fe, "a concurrent %s connection did not receive an answer of its own: %s", fe, wedge)
				}
			}
			r.FailOther("C10", wedgeSignature(wedge), "%s", wedge)
			return
		}
		// sequential read-out on the idle agent: every user with every password of the run, list, check
		var ro []*Call
		names := append(append([]string{}, users...), "newbie")
		for _, u := range names {
			pws := []string{}
			if m := model[u]; m != nil {
				pws = append(pws, m.PW)
			}
			for i := 0; i < pwn; i++ {
				pws = append(pws, fmt.Sprintf("pw-%02d", i))
			}
			for _, pw := range pws {
				ro = append(ro, &Call{Kind: "authenticate", Via: "agent", Agent: a.idx, User: u, PW: pw})
			}
		}
		ro = append(ro, &Call{Kind: "list", Via: "agent", Agent: a.idx}, &Call{Kind: "check", Via: "agent", Agent: a.idx})
		w.addClient(ro)
		if wedge := w.drain(nil); wedge != "" {
			r.FailOther("C10", wedgeSignature(wedge), "%s", wedge)
			return
		}
		hist = w.calls
		overlap := 0
		for i, x := range w.calls {
			for _, y := range w.calls[i+1:] {
				if x.User == y.User && x.Invoke <= y.Return && y.Invoke <= x.Return && (x.Kind != "authenticate" || y.Kind != "authenticate") {
					overlap++
				}
			}
		}
		if overlap > 0 {
			r.Nontrivial(fmt.Sprintf("%x|%d|%s", w.schedHash, len(w.calls), mode))
			r.Count("probe:overlapping-calls-on-one-user")
		}
		desc = map[string]any{"upgrade_mode": mode, "clients": nclients, "calls": total, "readout_calls": len(ro), "overlapping_pairs": overlap, "steps": w.step, "frontends": vias}
	})
	if hist == nil {
		return
	}
	var ops []porcupine.Operation
	for _, c := range hist {
		ops = append(ops, callToOp(c))
	}
	mdl := porcupine.Model{
		Init:  func() interface{} { return initial },
		Step:  seqStep,
		Equal: func(a, b interface{}) bool { return a.(string) == b.(string) },
	}
	res := porcupine.CheckOperationsTimeout(mdl, ops, 20*time.Second)
	switch res {
	case porcupine.Ok:
		r.Count("porcupine-ok")
	case porcupine.Unknown:
		r.Count("porcupine-unknown-inconclusive")
	case porcupine.Illegal:
		r.Count("porcupine-illegal")
		var lines []string
		for _, c := range hist {
			lines = append(lines, fmt.Sprintf("  c%d [%d,%d] %s", c.Client, c.Invoke, c.Return, c))
		}
		kind := "history-not-linearizable"
		// classify: does the sequential read-out contradict the acknowledged writes?
		r.Fail("linearizability/"+kind, "no sequential order of the store operations consistent with real time explains these responses (initial state %s):\n%s", initial, strings.Join(lines, "\n"))
	}
	r.Sample(desc)
}
