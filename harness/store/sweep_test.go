//go:build verif

package store

// Systematic sweeps over one generated scenario (DESIGN.md 3, C08 / C09 / C15):
//   - crash sweep: for every simfs operation boundary k of a mutating call (and prefixes
//     inside each write) re-run the call from the same pre-image with a crash at k, then
//     examine the process-kill image and the power-loss images with a fresh store;
//   - fault sweep: for every k and every errno applicable to that operation, re-run with
//     that single fault and compare the directory with the pre-state.

import (
	"fmt"
	"sort"
	"strings"
	"syscall"
	"time"

	"github.com/whawty/auth/zzverif/simfs"
	"github.com/whawty/auth/zzverif/simrt"
)

type opSpec struct {
	Kind  string // init add update set-admin remove
	User  string
	PW    string
	Admin bool
}

func (o opSpec) String() string {
	return fmt.Sprintf("%s(%s,pw=%s,admin=%v)", o.Kind, simrt.Q(o.User), simrt.Q(o.PW), o.Admin)
}

// auxPool: auxiliary data of every awkward shape (C08/C15 quantifier).
func auxPool(r *Run) string {
	switch r.Choose("aux", 8) {
	case 0:
		return ""
	case 1:
		return "totp: dG90cC1zZWNyZXQ=\n"
	case 2:
		return "u2f: a2V5\ntotp: c2VjcmV0" // no final newline
	case 3:
		return "u2f: AAAA\r\ntotp: BBBB\r\n" // CRLF
	case 4:
		return "bin: \x00\x01\xff\xfe:\n\n\nend: x\n" // binary, empty lines
	case 5:
		return "big: " + strings.Repeat("QUJD", 20000) + "\nsmall: eA==\n" // one line larger than every buffer (80 KB)
	case 6:
		return strings.Repeat("k: dmFsdWU=\n", 700) // many lines, > 4 KiB, crosses buffer boundaries
	default:
		return "\n" // a single empty line
	}
}

// populate writes 1..4 users with reference-written records (any configured set) and
// auxiliary data; everything durable. At least one supported admin.
func (w *World) populate(nusers int) []string {
	r := w.r
	var users []string
	nameScheme := r.Choose("pop-names", 2) // the second scheme: names that are dotted extensions of another user's name
	for i := 0; i < nusers; i++ {
		u := [][]string{{"root", "alice", "bob", "a.user"}, {"root", "alice", "alice.smith", "alice.ops.example.org"}}[nameScheme][i]
		var usable []PSet
		for _, s := range w.cfg.Sets {
			if !(s.Algo == algoScrypt && s.Cost == 0) {
				usable = append(usable, s) // C02 may add a set whose key derivation always fails
			}
		}
		set := usable[r.Choose("pop-set", len(usable))]
		pw := fmt.Sprintf("initial-%s-%d", u, r.Choose("pop-pw", 3))
		salt := make([]byte, set.SaltLen())
		for j := range salt {
			salt[j] = byte(i*31 + j)
		}
		stamp := time.Now().Unix() - int64(1000*(i+1))
		aux := auxPool(r)
		admin := i == 0 || r.Choose("pop-admin", 3) == 0
		ext := ".user"
		if admin {
			ext = ".admin"
		}
		content := RefWrite(set, pw, salt, stamp) + "\n" + aux
		w.fs.Put(w.base()+"/"+u+ext, []byte(content), 0o600)
		w.model[u] = &MUser{PW: pw, Set: set, Admin: admin, Stamp: stamp, Aux: aux, HasNL: true, Supported: true}
		users = append(users, u)
	}
	if r.Choose("pop-tmp", 2) == 1 && !w.tmpElsewhere {
		w.fs.PutDir(w.base()+"/.tmp", 0o700)
	}
	return users
}

// runOp executes op on instance 0 against the current simfs.Cur. crashed is true when the
// simulated process was killed inside the call.
func (w *World) runOp(op opSpec) (err error, crashed bool) {
	defer func() {
		if x := recover(); x != nil {
			if _, ok := x.(simfs.CrashSignal); ok {
				crashed = true
				return
			}
			panic(x)
		}
	}()
	d := w.dirs[0]
	w.guard(op.Kind, func() {
		switch op.Kind {
		case "init":
			err = d.Init(op.User, op.PW)
		case "add":
			err = d.AddUser(op.User, op.PW, op.Admin)
		case "update":
			err = d.UpdateUser(op.User, op.PW)
		case "set-admin":
			err = d.SetAdmin(op.User, op.Admin)
		case "remove":
			d.RemoveUser(op.User)
		}
	})
	return
}

// use installs fs as the current disk.
func (w *World) use(f *simfs.FS) {
	w.fs = f
	simfs.Cur = f
	w.logPos = len(f.Log)
}

type fileClass int

const (
	fcAbsent fileClass = iota
	fcEmpty
	fcOld
	fcNew
	fcBad
)

func (c fileClass) String() string {
	return [...]string{"absent", "empty", "old-complete", "new-complete", "MIXED/TRUNCATED"}[c]
}

// classify says what the target's file is in the current disk, relative to the old
// content (ok=false: no old file) and the expected new record (password newPW under the
// default set, followed by the old auxiliary data).
func (w *World) classify(u string, oldContent string, hadOld bool, oldAux string, newPW string) (fileClass, string) {
	_, content, ok := w.userFile(u)
	if !ok {
		return fcAbsent, ""
	}
	if content == "" {
		return fcEmpty, content
	}
	if hadOld && content == oldContent {
		return fcOld, content
	}
	line, rest := FirstLine(content)
	if !strings.Contains(content, "\n") {
		return fcBad, content
	}
	rec, err := ParseStrict(line)
	if err != nil {
		return fcBad, content
	}
	def := w.sets[w.cfgs[0].Default]
	if rec.Algo != def.Algo || uint(rec.ParamID) != def.ID {
		return fcBad, content
	}
	if d := def.Digest(newPW, rec.Salt); d == nil || string(d) != string(rec.Digest) {
		return fcBad, content
	}
	if rest != oldAux {
		return fcBad, content
	}
	return fcNew, content
}

// recovery is the C08 oracle on one post-crash image; it installs img as current disk.
// allowed: the classes the target may be in. Returns the class found.
func (w *World) recovery(img *simfs.FS, what string, op opSpec, pre map[string]simfs.Entry, preCheckOK bool, oldContent string, hadOld bool, oldAux, oldPW string, allowed map[fileClass]bool) fileClass {
	r := w.r
	w.use(img)
	cls, content := w.classify(op.User, oldContent, hadOld, oldAux, op.PW)
	if !allowed[cls] {
		r.Fail("crash/"+op.Kind+"/"+cls.String(), "%s: after %s the file of %s is %s (%s); allowed: %v", what, op, simrt.Q(op.User), cls, simrt.Q(content), allowedList(allowed))
	}
	// a fresh store instance on the image
	d, err := w.newDir("/etc/whawty/store0.yaml")
	if err != nil {
		r.Fail("crash/config-lost", "%s: configuration unreadable after crash: %v", what, err)
	}
	auth := func(pw string) bool {
		var ok bool
		w.guard("authenticate", func() { ok, _, _, _, _ = d.Authenticate(op.User, pw) })
		return ok
	}
	def := w.sets[w.cfgs[0].Default]
	newWorks, oldWorks := auth(op.PW), false
	if hadOld {
		oldWorks = auth(oldPW)
	}
	samePW := hadOld && w.model[op.User] != nil && def.Canon(op.PW) == w.model[op.User].Set.Canon(oldPW) && w.model[op.User].Set.Algo == def.Algo
	switch cls {
	case fcNew:
		if !newWorks {
			r.Fail("crash/"+op.Kind+"/new-record-rejected", "%s: complete new record does not authenticate the new password", what)
		}
		if oldWorks && !samePW && def.Canon(op.PW) != def.Canon(oldPW) {
			r.Fail("crash/"+op.Kind+"/old-password-still-works", "%s: old password authenticates against the new record", what)
		}
	case fcOld:
		if !oldWorks {
			r.Fail("crash/"+op.Kind+"/old-password-lost", "%s: the previous record is intact but the old password no longer authenticates", what)
		}
		if newWorks && !samePW {
			r.Fail("crash/"+op.Kind+"/new-password-early", "%s: new password works although the file still holds the old record", what)
		}
	case fcAbsent, fcEmpty:
		if newWorks || oldWorks {
			r.Fail("crash/"+op.Kind+"/ghost-login", "%s: a password authenticates although the file is %s", what, cls)
		}
	}
	for _, third := range []string{"", "third-password", op.PW + "x", oldPW + "x"} {
		if def.Canon(third) == def.Canon(op.PW) {
			continue // the scheme's own key equivalence (C01)
		}
		if hadOld && w.model[op.User] != nil && w.model[op.User].Set.Canon(third) == w.model[op.User].Set.Canon(oldPW) {
			continue
		}
		if auth(third) {
			r.Fail("crash/"+op.Kind+"/third-password", "%s: password %s authenticates", what, simrt.Q(third))
		}
	}
	// every other file byte-identical; extra entries only in .tmp
	post := w.fs.Snapshot(w.base())
	for _, d := range simfs.DiffSnap(pre, post) {
		f := strings.SplitN(d, " ", 2)
		p := f[1]
		rel := strings.TrimPrefix(p, w.base()+"/")
		if rel == op.User+".user" || rel == op.User+".admin" || rel == ".tmp" || strings.HasPrefix(rel, ".tmp/") {
			continue
		}
		r.Fail("crash/"+op.Kind+"/other-file-"+f[0], "%s: %s %s (not the target, not the work area)", what, f[0], p)
	}
	// no second file for the target
	_, hasA := post[w.base()+"/"+op.User+".admin"]
	_, hasU := post[w.base()+"/"+op.User+".user"]
	if hasA && hasU {
		r.Fail("crash/"+op.Kind+"/two-files", "%s: both %s.admin and %s.user exist", what, op.User, op.User)
	}
	if preCheckOK {
		var cerr error
		w.guard("check", func() { cerr = d.Check() })
		if cerr != nil {
			r.Fail("crash/"+op.Kind+"/check-fails", "%s: store passed the consistency check before, now: %v", what, cerr)
		}
	}
	r.Count("images-examined")
	// the restarted agent carries on: a later update of the same user (possibly under another
	// default parameter set, i.e. a record of another length) must again yield exactly one
	// complete record followed by the unchanged auxiliary data -- leftovers of the crash in the
	// work area are harmless only if they never leak into a later write
	if (cls == fcOld || cls == fcNew) && w.followUp {
		fc := w.cfg
		fc.Default = w.cfg.Sets[w.followSet%len(w.cfg.Sets)].ID
		img.Put("/etc/whawty/followup.yaml", []byte(fc.YAML()), 0o600)
		if d2, err := w.newDir("/etc/whawty/followup.yaml"); err == nil {
			var uerr error
			w.guard("update", func() { uerr = d2.UpdateUser(op.User, "follow-up password") })
			if uerr == nil {
				_, content, _ := w.userFile(op.User)
				line, rest := FirstLine(content)
				rec, perr := ParseStrict(line)
				fdef := w.sets[fc.Default]
				okRec := perr == nil && strings.Contains(content, "\n") && rec.Algo == fdef.Algo && uint(rec.ParamID) == fdef.ID
				if okRec {
					dg := fdef.Digest("follow-up password", rec.Salt)
					okRec = dg != nil && string(dg) == string(rec.Digest)
				}
				if !okRec || rest != oldAux {
					r.Fail("crash/"+op.Kind+"/later-update-corrupted", "%s; then the restarted agent updates %s again (default set %d): the file is not 'one complete record + the unchanged auxiliary data': %s", what, op.User, fc.Default, simrt.Q(content))
				}
				r.Count("follow-up-updates-after-crash")
			}
		}
	}
	return cls
}

func allowedList(a map[fileClass]bool) []string {
	var out []string
	for c, ok := range a {
		if ok {
			out = append(out, c.String())
		}
	}
	sort.Strings(out)
	return out
}

// powerLossImages calls fn for the images reachable from f under the power-loss model:
// complete enumeration when there are at most limit of them, else limit sampled ones.
func (w *World) powerLossImages(f *simfs.FS, limit int, fn func(img *simfs.FS, desc string)) {
	r := w.r
	n, exh := EnumChoices(limit, func(choose func(kind string, n int) int) {
		var desc []string
		img := f.PowerLossImage(func(kind string, n int) int {
			v := choose(kind, n)
			desc = append(desc, fmt.Sprintf("%s=%d/%d", kind, v, n))
			return v
		})
		fn(img, strings.Join(desc, ","))
	})
	r.Add("power-loss-images", n)
	if exh {
		r.Count("image-sets-enumerated-completely")
	} else {
		r.Count("image-sets-sampled")
		// add sampled images beyond the DFS prefix
		for i := 0; i < limit/2; i++ {
			var desc []string
			img := f.PowerLossImage(func(kind string, n int) int {
				v := r.Choose("sample-"+kind, n)
				desc = append(desc, fmt.Sprintf("%s=%d/%d", kind, v, n))
				return v
			})
			fn(img, strings.Join(desc, ","))
		}
	}
}

// scenario is a generated pre-state plus one mutating operation.
type scenario struct {
	w      *World
	users  []string
	op     opSpec
	pre    *simfs.FS
	preSnap map[string]simfs.Entry
	nops   int
	kinds  []string // op kind per index of the clean execution
	wlens  []int    // bytes of each write op
	otherDev bool   // the work area is a symlink to a directory on another device
}

// scenarioOtherDev lets genScenario put the work area on another device in some runs (C08
// only): rename from there into the store is impossible (EXDEV), so add / update must fail
// and leave everything as it was - at every crash point too.
var scenarioOtherDev bool

func genScenario(r *Run, rr *randRecorder, kinds []string) *scenario {
	cfg := GenConfig(r, "/srv/whawty/base")
	w := newWorld(r, rr, cfg, 1)
	sc := &scenario{w: w}
	kind := kinds[r.Choose("opkind", len(kinds))]
	if kind == "init" {
		if r.Choose("init-tmp", 2) == 1 {
			w.fs.PutDir(w.base()+"/.tmp", 0o700)
		}
		sc.op = opSpec{Kind: "init", User: "root", PW: GenPassword(r), Admin: true}
	} else {
		if scenarioOtherDev && (kind == "add" || kind == "update") && r.Choose("tmp-on-other-device", 8) == 0 {
			sc.otherDev, w.tmpElsewhere = true, true
		}
		sc.users = w.populate(1 + r.Choose("nusers", 4))
		if sc.otherDev {
			w.fs.Mount("/mnt/scratch")
			w.fs.PutDir("/mnt/scratch/whawty-tmp", 0o700)
			w.fs.PutSymlink("/mnt/scratch/whawty-tmp", w.base()+"/.tmp")
			w.extraOK = func(p string) bool {
				return strings.HasPrefix(p, "/mnt/scratch/whawty-tmp/") && !strings.Contains(p[len("/mnt/scratch/whawty-tmp/"):], "/")
			}
			r.Count("probe:work-area-on-other-device")
		}
		switch kind {
		case "add":
			sc.op = opSpec{Kind: "add", User: []string{"newbie", "zed", "n.e.w"}[r.Choose("newname", 3)], PW: GenPassword(r), Admin: r.Choose("admin", 2) == 1}
		case "update":
			sc.op = opSpec{Kind: "update", User: sc.users[r.Choose("target", len(sc.users))], PW: GenPassword(r)}
		case "set-admin":
			u := sc.users[r.Choose("target", len(sc.users))]
			sc.op = opSpec{Kind: "set-admin", User: u, Admin: !w.model[u].Admin}
			if r.Choose("noop-setadmin", 6) == 0 {
				sc.op.Admin = w.model[u].Admin
			}
		case "remove":
			sc.op = opSpec{Kind: "remove", User: sc.users[r.Choose("target", len(sc.users))]}
		}
	}
	time.Sleep(clockSteps[r.Choose("clock", len(clockSteps))])
	sc.pre = w.fs.Clone()
	sc.preSnap = w.fs.Snapshot(w.base())
	// clean execution on a clone: count operations
	w.use(sc.pre.Clone())
	w.fs.ResetLog()
	err, _ := w.runOp(sc.op)
	if err != nil && !sc.otherDev {
		r.Fail("harness/clean-op-failed", "fault-free %s failed: %v", sc.op, err)
	}
	if sc.otherDev {
		if err == nil {
			r.Count("probe:write-succeeded-across-devices")
		} else if diff := simfs.DiffSnap(sc.preSnap, w.fs.Snapshot(w.base())); len(diff) > 0 {
			r.FailOther("C15", "failure-changed-store/other-device", "%s failed (%v) with the work area on another device and changed the store: %v", sc.op, err, diff)
		}
		if ents := w.fs.Names("/mnt/scratch/whawty-tmp"); len(ents) > 0 {
			r.FailOther("C16", "tmp/residue", "work area not empty after %s (err=%v): %v", sc.op, err, ents)
		}
	}
	sc.nops = w.fs.NOps
	for _, rec := range w.fs.Log {
		sc.kinds = append(sc.kinds, rec.Kind)
		sc.wlens = append(sc.wlens, rec.N)
	}
	w.confinement()
	r.Logf("scenario %s users=%v ops=%d", sc.op, sc.users, sc.nops)
	return sc
}

var errnosFor = map[string][]syscall.Errno{
	"open":     {syscall.EIO, syscall.EACCES, syscall.EMFILE},
	"create":   {syscall.ENOSPC, syscall.EIO, syscall.EACCES, syscall.EMFILE},
	"mkdir":    {syscall.ENOSPC, syscall.EIO, syscall.EACCES},
	"stat":     {syscall.EIO, syscall.EACCES},
	"lstat":    {syscall.EIO, syscall.EACCES},
	"read":     {syscall.EIO},
	"write":    {syscall.ENOSPC, syscall.EIO},
	"sync":     {syscall.EIO, syscall.ENOSPC},
	"rename":   {syscall.EIO, syscall.ENOSPC, syscall.EACCES},
	"remove":   {syscall.EIO, syscall.EACCES},
	"readdir":  {syscall.EIO},
	"fstat":    {syscall.EIO},
	"truncate": {syscall.EIO, syscall.ENOSPC},
}
