//go:build verif

package store

// C15, "an operation that reports failure leaves the store exactly as it was", for calls
// that are refused because of what already sits at the target's name: an entry that `stat`
// does not see but `open(O_EXCL)` does (dangling symbolic link), a directory, a
// symbolic link to another user's record, the other extension already taken. The refused
// call must not clean up things it did not create.

import (
	"fmt"

	"github.com/whawty/auth/zzverif/simfs"
	"github.com/whawty/auth/zzverif/simrt"
)

func propC15Odd(r *Run) {
	inBubble(r, func(rr *randRecorder) {
		cfg := GenConfig(r, "/srv/whawty/base")
		w := newWorld(r, rr, cfg, 1)
		users := w.populate(1 + r.Choose("nusers", 3))
		base := w.base()
		n := 2 + r.Choose("nodd", 4)
		for i := 0; i < n; i++ {
			u := []string{"newbie", "zed", "n.e.w"}[r.Choose("odd-name", 3)]
			if _, _, on := w.userFile(u); on {
				continue
			}
			ext := []string{".user", ".admin"}[r.Choose("odd-ext", 2)]
			p := base + "/" + u + ext
			kind := []int{0, 0, 1, 2, 4}[r.Choose("odd-kind", 5)]
			switch kind {
			case 0:
				w.fs.PutSymlink("/nonexistent/target", p)
			case 1:
				w.fs.PutSymlink(base+"/"+users[0]+map[bool]string{true: ".admin", false: ".user"}[w.model[users[0]].Admin], p)
			case 2:
				w.fs.PutDir(p, 0o700)
			case 4:
				w.fs.PutSymlink(p, p) // a link to itself: ELOOP
			}
			desc := []string{"dangling symlink", "symlink to " + users[0] + "'s record", "directory", "fifo", "symlink loop"}[kind] + " at " + u + ext
			before := w.fs.Snapshot(base)
			w.arm()
			opAdmin := r.Choose("odd-admin", 2) == 1
			var err error
			what := ""
			switch r.Choose("odd-op", 3) {
			case 0:
				what = fmt.Sprintf("add(%s,admin=%v)", u, opAdmin)
				w.guard("add", func() { err = w.dirs[0].AddUser(u, "some-password", opAdmin) })
			case 1:
				what = fmt.Sprintf("update(%s)", u)
				w.guard("update", func() { err = w.dirs[0].UpdateUser(u, "some-password") })
			case 2:
				what = fmt.Sprintf("set-admin(%s,%v)", u, opAdmin)
				w.guard("set-admin", func() { err = w.dirs[0].SetAdmin(u, opAdmin) })
			}
			after := w.fs.Snapshot(base)
			diff := simfs.DiffSnap(before, after)
			r.Logf("%s with a %s -> %v; store diff %v", what, desc, err, diff)
			if err != nil && len(diff) > 0 {
				r.Fail("refused/changed-store", "%s with a %s was refused (%v) and still changed the store: %v", what, desc, err, diff)
			}
			if tmp := w.tmpEntries(); len(tmp) > 0 {
				r.FailOther("C16", "tmp/residue", "%s with a %s: work area not empty afterwards: %v", what, desc, tmp)
			}
			w.logPos = len(w.fs.Log)
			r.Count("probe:refused-on-odd-entry")
			r.Nontrivial(fmt.Sprintf("odd|%s|%s|%v", what, desc, err == nil))
			// tidy: the odd entry goes away again so that the next round starts from a plain store
			w.fs.Delete(base + "/" + u + ".user")
			w.fs.Delete(base + "/" + u + ".admin")
			_ = simrt.Q
		}
		r.Steps += n
	})
}
