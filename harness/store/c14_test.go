//go:build verif

package store

import (
	"bytes"
	"encoding/base64"
	"fmt"
	"strings"
	"time"

	"github.com/whawty/auth/zzverif/simfs"

	"github.com/whawty/auth/zzverif/simrt"
)

func init() { register("C14", propC14) }

// checkWritten is the C14 record oracle, evaluated after every acknowledged add / update
// in every L run: grammar, default parameter set, stamp = fake now, salt size and
// freshness against the seeded random stream, digest recomputed independently from the
// password, that salt and the parameters of the YAML text.
func (w *World) checkWritten(inst int, u string) {
	r := w.r
	m := w.model[u]
	path, content, ok := w.userFile(u)
	if !ok {
		r.FailOther("C14", "record/missing", "no file for %s after acknowledged write", simrt.Q(u))
		return
	}
	line, rest := FirstLine(content)
	if !strings.Contains(content, "\n") {
		r.FailOther("C14", "record/no-newline", "record of %s is not newline-terminated: %s", simrt.Q(u), simrt.Q(content))
	}
	rec, err := ParseStrict(line)
	if err != nil {
		r.FailOther("C14", "record/grammar", "%s: first line %s does not follow the schema: %v", path, simrt.Q(line), err)
		return
	}
	def := w.sets[w.cfgs[inst].Default]
	if rec.Algo != def.Algo || uint(rec.ParamID) != def.ID {
		r.FailOther("C14", "record/param-set", "%s written as %s set %d, configured default is %s", path, rec.Algo, rec.ParamID, def.Desc())
	}
	if now := time.Now().Unix(); rec.Stamp != now {
		r.FailOther("C14", "record/stamp", "%s carries stamp %d, clock says %d", path, rec.Stamp, now)
	}
	if len(rec.Salt) != def.SaltLen() {
		r.FailOther("C14", "record/salt-size", "%s salt has %d bytes, schema says %d", path, len(rec.Salt), def.SaltLen())
	}
	if want := def.Digest(m.PW, rec.Salt); want == nil || !bytes.Equal(want, rec.Digest) {
		r.FailOther("C14", "record/digest", "%s digest differs from %s recomputed from the password and the stored salt", path, def.Desc())
	}
	// salt freshness: must be bytes handed out by crypto/rand during this very operation
	fresh := false
	for _, s := range w.rr.Segs[w.segPos:] {
		if bytes.Contains(s.B, rec.Salt) {
			fresh = true
		}
	}
	if !fresh {
		r.FailOther("C14", "record/salt-not-fresh", "%s salt %x was not drawn from the random source during this write (constant, derived or reused salt)", path, rec.Salt)
	}
	w.segPos = len(w.rr.Segs)
	if rest != m.Aux {
		r.FailOther("C15", "aux/changed", "%s auxiliary data changed by a password write: %s -> %s", path, simrt.Q(m.Aux), simrt.Q(rest))
	}
	r.Count("records-checked")
}

// markerPasswords cannot occur inside a record line by accident: >= 8 bytes and contain a
// byte outside the record alphabet.
func isMarker(pw string) bool {
	if len(pw) < 8 {
		return false
	}
	return strings.ContainsAny(pw, " !#$%&\x00\n\xff") || strings.ContainsRune(pw, 'ä')
}

// checkByteLog: neither a marker password nor an HMAC key (raw or base64) ever reached
// the disk, not even transiently in the work area.
func (w *World) checkByteLog(passwords []string) {
	r := w.r
	var all []byte
	for _, b := range w.fs.ByteLog {
		all = append(all, b...)
		all = append(all, 0x1e)
	}
	for _, pw := range passwords {
		if isMarker(pw) && bytes.Contains(all, []byte(pw)) {
			r.FailOther("C14", "leak/password", "password %s was written to the store directory", simrt.Q(pw))
		}
	}
	for _, s := range w.cfg.Sets {
		if s.Algo != algoScrypt {
			continue
		}
		for _, enc := range [][]byte{s.Key, []byte(base64.StdEncoding.EncodeToString(s.Key)), []byte(base64.URLEncoding.EncodeToString(s.Key))} {
			if bytes.Contains(all, enc) {
				r.FailOther("C14", "leak/hmac-key", "HMAC key of set %d was written to the store directory", s.ID)
			}
		}
	}
	// and the final tree
	for p, e := range w.fs.Snapshot(w.base()) {
		for _, pw := range passwords {
			if isMarker(pw) && strings.Contains(e.Data, pw) {
				r.FailOther("C14", "leak/password", "password %s is in %s", simrt.Q(pw), p)
			}
		}
	}
}

var markerPool = []string{"marker pass #1", "zwölf Böxkämpfer", "tab\tand space 99", "with\x00nul-inside", "ÿÿÿÿ\xff\xff\xff\xff", strings.Repeat("long marker! ", 20)}

func propC14(r *Run) {
	inBubble(r, func(rr *randRecorder) {
		cfg := GenConfig(r, "/srv/whawty/base")
		w := newWorld(r, rr, cfg, 1+r.Choose("ninst", 2))
		n := 3 + r.Choose("nwrites", 10)
		faultRun := r.Choose("fault-class", 4) == 0
		var pws []string
		users := []string{"alice", "bob", "carol"}
		salts := map[string]bool{}
		for i := 0; i < n; i++ {
			if d := clockSteps[r.Choose("clock", len(clockSteps))]; d > 0 {
				time.Sleep(d)
			}
			inst := r.Choose("inst", len(w.dirs))
			u := users[r.Choose("user", len(users))]
			var pw string
			if r.Choose("marker", 2) == 1 {
				pw = markerPool[r.Choose("mpw", len(markerPool))]
			} else {
				pw = GenPassword(r)
			}
			pws = append(pws, pw)
			var err error
			// a quarter of the runs inject single I/O faults: a write that then still reports
			// success must have produced a record as well-formed as any other
			faulty := faultRun && r.Choose("inject-fault", 3) == 0
			if faulty {
				k := w.fs.NOps + r.Choose("fault-at", 16)
				pick := r.Choose("fault-errno", 4)
				done := false
				w.fs.Plan = func(seq int, kind, real string) *simfs.Fault {
					if done || seq < k {
						return nil
					}
					kk := kind
					if kk == "open" && strings.Contains(real, "/.tmp/") {
						kk = "create"
					}
					if e := errnosFor[kk]; len(e) > 0 {
						done = true
						r.Count("fault:" + e[pick%len(e)].Error())
						if kk == "write" && pick%2 == 1 {
							return &simfs.Fault{Errno: e[pick%len(e)], Short: 1}
						}
						return &simfs.Fault{Errno: e[pick%len(e)]}
					}
					return nil
				}
			}
			if faulty {
				exists := w.model[u] != nil
				if exists {
					w.guard("update", func() { err = w.dirs[inst].UpdateUser(u, pw) })
				} else {
					w.guard("add", func() { err = w.dirs[inst].AddUser(u, pw, false) })
				}
				w.fs.Plan = nil
				r.Logf("#%d t=%d inst%d faulty write %s pw=%s -> %v", i, time.Now().Unix(), inst, u, simrt.Q(pw), err)
				if err != nil {
					// reported failure: what it may leave behind is C15's business; bring the model in
					// line with the disk (old record, or -- known finding -- the new one) and go on
					_, content, ok := w.userFile(u)
					if !ok || content == "" {
						delete(w.model, u)
					} else if m := w.model[u]; m != nil && !RefVerifyLenient(w.sets, content, m.PW) && RefVerifyLenient(w.sets, content, pw) {
						line, rest := FirstLine(content)
						if rec, perr := ParseStrict(line); perr == nil {
							m.PW, m.Set, m.Stamp, m.Aux = pw, w.sets[uint(rec.ParamID)], rec.Stamp, rest
						}
					}
					continue
				}
				if exists {
					w.mUpdate(u, pw, inst)
				} else {
					w.mAdd(u, pw, false, inst)
				}
				w.segPos = 0 // the salt was drawn somewhere during this (partly failed) call
				w.checkWritten(inst, u)
				w.confinement()
				continue
			}
			if r.Choose("two-writers-one-instance", 8) == 0 {
				// two goroutines of one program add two users through the same instance at the same
				// time (its hashers are shared; their statements are scheduling points): both records
				// are written exactly as the schema and the configuration say, each with its own salt
				ua, ub := fmt.Sprintf("twin%da", i), fmt.Sprintf("twin%db", i)
				pwa, pwb := fmt.Sprintf("twin-password-%d-a", i), fmt.Sprintf("twin-password-%d-b", i)
				var ea, eb error
				d := w.dirs[inst]
				seg0 := w.segPos
				w.libYields = true
				_, sw := w.interleaveReader(w.fs, func() { ea = d.AddUser(ua, pwa, false) }, func(*[]readerObs) { eb = d.AddUser(ub, pwb, false) })
				w.libYields = false
				r.Logf("#%d t=%d inst%d add %s || add %s on one instance -> %v, %v (%d context switches)", i, time.Now().Unix(), inst, ua, ub, ea, eb, sw)
				r.Count("probe:two-writers-one-instance")
				if ea != nil || eb != nil {
					r.Fail("write/failed", "two concurrent adds of different users through one instance failed on a healthy store: %v, %v", ea, eb)
				}
				w.mAdd(ua, pwa, false, inst)
				w.mAdd(ub, pwb, false, inst)
				for _, tu := range []string{ua, ub} {
					w.segPos = seg0
					w.checkWritten(inst, tu)
					rec, _, _ := w.recordOf(tu)
					if salts[string(rec.Salt)] {
						r.Fail("record/salt-reused", "salt %x used by two writes", rec.Salt)
					}
					salts[string(rec.Salt)] = true
				}
				w.confinement()
				continue
			}
			if _, ok := w.model[u]; ok {
				w.guard("update", func() { err = w.dirs[inst].UpdateUser(u, pw) })
				w.mUpdate(u, pw, inst)
				r.Logf("#%d t=%d inst%d update %s pw=%s -> %v", i, time.Now().Unix(), inst, u, simrt.Q(pw), err)
			} else {
				admin := r.Choose("admin", 2) == 1
				w.guard("add", func() { err = w.dirs[inst].AddUser(u, pw, admin) })
				w.mAdd(u, pw, admin, inst)
				r.Logf("#%d t=%d inst%d add %s pw=%s -> %v", i, time.Now().Unix(), inst, u, simrt.Q(pw), err)
			}
			if err != nil {
				r.Fail("write/failed", "write of %s failed on a healthy store: %v", u, err)
			}
			w.checkWritten(inst, u)
			rec, _, _ := w.recordOf(u)
			if salts[string(rec.Salt)] {
				r.Fail("record/salt-reused", "salt %x used by two writes", rec.Salt)
			}
			salts[string(rec.Salt)] = true
			w.checkAuth("C14", inst, u, pw)
			w.confinement()
			r.Nontrivial(fmt.Sprintf("%s|%s", w.cfgs[inst].Desc(), pw))
		}
		w.checkByteLog(pws)
		r.Steps += n
		r.Sample(map[string]any{"config": cfg.Desc(), "writes": n, "last_record": func() string { _, c, _ := w.userFile(users[0]); return c }()})
	})
}
