//go:build verif

package store

import (
	"fmt"
	"strings"
	"syscall"

	"github.com/whawty/auth/zzverif/simfs"
	"github.com/whawty/auth/zzverif/simrt"
)

func init() { register("C15", propC15) }

// propC15: single-fault sweep. For one generated scenario and one mutating operation,
// every simfs operation index k of the clean execution x every errno applicable to that
// operation (plus a short write) is injected, one at a time.
//   reported failure  => every entry of the base directory other than .tmp is byte-identical
//                        to the pre-state and .tmp is empty or absent
//   reported success  => exactly the model's effect: target rewritten/renamed/removed, its
//                        auxiliary lines byte-identical, every other file byte-identical
// Then the read-only clause: authenticate / exists / list / list-full / check perform no
// mutation, with and without an injected fault.
func propC15(r *Run) {
	if r.Choose("odd-entries-clause", 10) == 0 {
		propC15Odd(r)
		return
	}
	inBubble(r, func(rr *randRecorder) {
		sc := genScenario(r, rr, []string{"add", "update", "update", "set-admin", "remove", "init"})
		w, op := sc.w, sc.op
		m := w.model[op.User]
		hadOld := m != nil
		var oldContent, oldAux string
		var oldAdmin bool
		if hadOld {
			w.use(sc.pre.Clone())
			_, oldContent, _ = w.userFile(op.User)
			oldAux, oldAdmin = m.Aux, m.Admin
		}
		evals := 0
		outcomes := map[string]int{}
		renameIdx := 1 << 30
		for i, k := range sc.kinds {
			if k == "rename" {
				renameIdx = i
			}
		}
		afterRename := false
		faultKind, faultReal := "", ""
		judge := func(what string, f *simfs.FS, err error) {
			w.use(f)
			post := f.Snapshot(w.base())
			diff := simfs.DiffSnap(sc.preSnap, post)
			var resid []string
			var changed []string
			for _, d := range diff {
				p := strings.SplitN(d, " ", 2)[1]
				rel := strings.TrimPrefix(p, w.base()+"/")
				if rel == ".tmp" {
					continue // an empty work area is not residue
				}
				if strings.HasPrefix(rel, ".tmp/") {
					resid = append(resid, d)
					continue
				}
				changed = append(changed, d)
			}
			if op.Kind == "remove" {
				// remove reports nothing; under an injected fault it may be ineffective, but it
				// must not touch anything else
				for _, d := range changed {
					p := strings.SplitN(d, " ", 2)[1]
					rel := strings.TrimPrefix(p, w.base()+"/")
					if rel != op.User+".user" && rel != op.User+".admin" {
						r.Fail("fault/remove/other-file", "%s: %s", what, d)
					}
					if !strings.HasPrefix(d, "removed ") {
						r.Fail("fault/remove/not-a-removal", "%s: %s", what, d)
					}
				}
				outcomes["remove"]++
				return
			}
			if err != nil && afterRename && (op.Kind == "update" || op.Kind == "set-admin") {
				// The failing step comes after the rename that installs the change: the call
				// reports failure although the change is visible and cannot be taken back.
				// Known finding (see known_findings.json); the state must then be exactly the
				// success state, anything else is reported under the general signatures below.
				outcomes["failure-after-rename"]++
				// the finding is specific to the open / fsync of the BASE DIRECTORY that follows the
				// rename; a failure anywhere else after the rename gets its own signature
				site := "other-" + faultKind
				if faultReal == w.base() && (faultKind == "open" || faultKind == "sync") {
					site = "dir-" + faultKind
				}
				if site == "dir-open" || site == "dir-sync" {
					r.Fail("fault/"+op.Kind+"/failure-after-rename", "%s: %s reported %q but the change is installed: %v", what, op, err, changed)
				} else {
					r.Fail("fault/"+op.Kind+"/failure-after-rename/"+site, "%s (on %s): %s reported %q but the change is installed: %v", what, faultReal, op, err, changed)
				}
				err = nil
			}
			if err != nil {
				outcomes["failure"]++
				if len(changed) > 0 {
					r.Fail("fault/"+op.Kind+"/failure-changed-store", "%s: %s reported %q but the store changed: %v", what, op, err, changed)
				}
				if len(resid) > 0 {
					r.Fail("fault/"+op.Kind+"/failure-left-residue", "%s: %s reported %q and left %v in the work area", what, op, err, resid)
				}
				return
			}
			outcomes["success"]++
			// success: the model's effect and nothing else
			want := map[string]bool{}
			switch op.Kind {
			case "init", "add", "update":
				cls, content := w.classify(op.User, oldContent, false, oldAux, op.PW)
				if cls != fcNew {
					r.Fail("fault/"+op.Kind+"/success-without-effect", "%s: %s reported success but the file of %s is %s (%q)", what, op, op.User, cls, truncate(content, 60))
				}
				ext := ".user"
				if (op.Kind != "update" && op.Admin) || (op.Kind == "update" && oldAdmin) {
					ext = ".admin"
				}
				want[op.User+ext] = true
			case "set-admin":
				if op.Admin != oldAdmin {
					want[op.User+".user"], want[op.User+".admin"] = true, true
					ext := ".user"
					if op.Admin {
						ext = ".admin"
					}
					if c, ok := f.Get(w.base() + "/" + op.User + ext); !ok || string(c) != oldContent {
						r.Fail("fault/set-admin/record-changed", "%s: set-admin must keep the whole record (timestamp included)", what)
					}
				}
			}
			for _, d := range changed {
				p := strings.SplitN(d, " ", 2)[1]
				rel := strings.TrimPrefix(p, w.base()+"/")
				if !want[rel] {
					r.Fail("fault/"+op.Kind+"/other-file", "%s: %s succeeded but also: %s", what, op, d)
				}
			}
			if len(resid) > 0 {
				r.Fail("fault/"+op.Kind+"/success-left-residue", "%s: %s succeeded and left %v in the work area", what, op, resid)
			}
		}
		// fault-free reference first
		{
			f := sc.pre.Clone()
			w.use(f)
			err, _ := w.runOp(op)
			judge("no fault", f, err)
			evals++
		}
		for k := 0; k < sc.nops; k++ {
			errs := errnosFor[sc.kinds[k]]
			type inj struct {
				e     syscall.Errno
				short int
			}
			var injs []inj
			for _, e := range errs {
				injs = append(injs, inj{e, 0})
			}
			if sc.kinds[k] == "write" && sc.wlens[k] > 1 {
				injs = append(injs, inj{syscall.ENOSPC, sc.wlens[k] / 2}, inj{syscall.EIO, 1})
			}
			for _, in := range injs {
				f := sc.pre.Clone()
				k, in := k, in
				fired := false
				f.Plan = func(seq int, kind, real string) *simfs.Fault {
					if seq == k {
						fired = true
						faultKind, faultReal = kind, real
						return &simfs.Fault{Errno: in.e, Short: in.short}
					}
					return nil
				}
				w.use(f)
				err, _ := w.runOp(op)
				afterRename = k > renameIdx
				if !fired {
					r.Fail("harness/fault-not-reached", "op %d not reached", k)
				}
				what := fmt.Sprintf("%s injected into op %d/%d (%s)", in.e, k, sc.nops, sc.kinds[k])
				if in.short > 0 {
					what = fmt.Sprintf("short write (%d of %d bytes, then %s) at op %d/%d", in.short, sc.wlens[k], in.e, k, sc.nops)
					r.Count("fault:short-write")
				}
				r.Count("fault:" + in.e.Error())
				r.Logf("inject %s -> err=%v", what, err)
				judge(what, f, err)
				w.confinement()
				evals++
			}
		}
		// faults that stay: from operation k on, every operation of that kind fails the same way (a
		// file system that has filled up or gone read-only, a work area on another device): retrying
		// inside the call does not help, and what was there before the call is still there after it
		for k := 0; k < sc.nops; k++ {
			kk := sc.kinds[k]
			if kk != "rename" && kk != "write" && kk != "sync" {
				continue
			}
			for _, e := range errnosFor[kk] {
				f := sc.pre.Clone()
				k, e := k, e
				fired := 0
				f.Plan = func(seq int, kind, real string) *simfs.Fault {
					if seq >= k && kind == kk {
						if fired == 0 {
							faultKind, faultReal = kind, real
						}
						fired++
						return &simfs.Fault{Errno: e}
					}
					return nil
				}
				w.use(f)
				err, _ := w.runOp(op)
				afterRename = k > renameIdx
				what := fmt.Sprintf("%s injected into op %d/%d (%s) and into every later %s (%d in all)", e, k, sc.nops, kk, kk, fired)
				r.Count("fault:persistent-" + kk + "-" + e.Error())
				r.Logf("inject %s -> err=%v", what, err)
				judge(what, f, err)
				w.confinement()
				evals++
			}
		}
		// read-only clause, first with the store being opened inside the measured window (what
		// every CLI command, daemon start and reload does) on a directory that has no work area
		{
			f := sc.pre.Clone()
			w.use(f)
			f.Delete(w.base() + "/.tmp")
			before := f.SnapshotAll()
			m0 := f.Mutations
			var d2 *Dir
			w.guard("open-store", func() { d2, _ = NewDirFromConfig("/etc/whawty/store0.yaml") })
			if d2 != nil {
				w.guard("read-only-after-open", func() {
					d2.Check()        //nolint
					d2.List()         //nolint
					d2.ListFull()     //nolint
					d2.Exists("root") //nolint
					d2.Authenticate("root", "x") //nolint
				})
			}
			if f.Mutations != m0 || len(simfs.DiffSnap(before, f.SnapshotAll())) > 0 {
				r.Fail("read-only/open-store/mutated", "opening the store and running check / list / list-full / exists / authenticate changed the file system: %v %v", mutOps(f), simfs.DiffSnap(before, f.SnapshotAll()))
			}
			evals++
		}
		rofaults := 0
		// "-reserved": the call concerns a name whose file is an empty reservation (an add in flight
		// in another process, or left behind by one that crashed) - still nothing to clean up here
		reserve := func(f *simfs.FS, ro string) {
			if strings.HasSuffix(ro, "-reserved") {
				f.Put(w.base()+"/pending"+[]string{".user", ".admin"}[len(sc.users)%2], nil, 0o600)
				f.Mutations = 0
			}
		}
		for _, ro := range []string{"authenticate", "authenticate-wrong", "exists", "list", "list-full", "check", "authenticate-reserved", "exists-reserved", "list-reserved"} {
			for pass := 0; pass < 2; pass++ {
				f := sc.pre.Clone()
				var nops int
				{ // count
					g := sc.pre.Clone()
					reserve(g, ro)
					w.use(g)
					w.readOnly(ro)
					nops = g.NOps
				}
				kmax := 1
				if pass == 1 {
					kmax = nops
				}
				for k := 0; k < kmax; k++ {
					f = sc.pre.Clone()
					if pass == 1 {
						k := k
						f.Plan = func(seq int, kind, real string) *simfs.Fault {
							if seq == k {
								e := errnosFor[kind]
								if len(e) > 0 {
									return &simfs.Fault{Errno: e[0]}
								}
							}
							return nil
						}
						rofaults++
					}
					reserve(f, ro)
					w.use(f)
					ok := w.readOnly(ro)
					if f.Mutations != 0 {
						r.Fail("read-only/"+ro+"/mutated", "%s performed %d file-system mutation(s): %v", ro, f.Mutations, mutOps(f))
					}
					if pass == 1 && ok && ro == "authenticate-wrong" {
						r.FailOther("C04", "fault/wrong-password-accepted", "a wrong password was accepted under an injected read fault")
					}
					evals++
				}
			}
		}
		r.Add("fault:read-path-errno", rofaults)
		r.Add("evaluations", evals)
		r.Steps += evals
		for k, v := range outcomes {
			r.Add("probe:outcome-"+k, v)
		}
		r.Nontrivial(fmt.Sprintf("%s|%s|%v|aux=%d", w.cfg.Desc(), op, sc.users, len(oldAux)))
		r.Sample(map[string]any{"operation": op.String(), "users": sc.users, "fs_ops": sc.nops, "single_faults_injected": evals, "outcomes": outcomes})
	})
}

func mutOps(f *simfs.FS) []string {
	var out []string
	for _, rec := range f.Log {
		if rec.Mut {
			out = append(out, rec.Kind+" "+rec.Real)
		}
	}
	return out
}

// readOnly performs one read-only call against the current disk; ok = it authenticated.
func (w *World) readOnly(kind string) (ok bool) {
	d := w.dirs[0]
	users := sortedKeys(w.model)
	u := "nobody"
	pw := "x"
	if len(users) > 0 {
		u = users[0]
		pw = w.model[u].PW
	}
	w.guard(kind, func() {
		switch kind {
		case "authenticate":
			ok, _, _, _, _ = d.Authenticate(u, pw)
		case "authenticate-wrong":
			ok, _, _, _, _ = d.Authenticate(u, pw+"-wrong")
		case "authenticate-reserved":
			d.Authenticate("pending", "x") //nolint
		case "exists-reserved":
			d.Exists("pending") //nolint
		case "list-reserved":
			d.List()     //nolint
			d.ListFull() //nolint
		case "exists":
			d.Exists(u) //nolint
		case "list":
			d.List() //nolint
		case "list-full":
			d.ListFull() //nolint
		case "check":
			d.Check() //nolint
		}
	})
	return
}

var _ = simrt.Q
