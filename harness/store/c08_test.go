//go:build verif

package store

import (
	"fmt"
	"strings"

	"github.com/whawty/auth/zzverif/simfs"
)

func init() {
	register("C08", propC08)
	register("C09", propC09)
}

// propC08: crash at every operation boundary (and inside writes) of init / add / update;
// process-kill image and power-loss images examined with a fresh store.
func propC08(r *Run) {
	inBubble(r, func(rr *randRecorder) {
		scenarioOtherDev = true
		sc := genScenario(r, rr, []string{"add", "update", "update", "init"})
		scenarioOtherDev = false
		w, op := sc.w, sc.op
		m := w.model[op.User]
		hadOld := m != nil
		var oldContent, oldAux, oldPW string
		if hadOld {
			_, oldContent, _ = func() (string, string, bool) { w.use(sc.pre.Clone()); return w.userFile(op.User) }()
			oldAux, oldPW = m.Aux, m.PW
		}
		w.use(sc.pre.Clone())
		preCheckOK := w.dirs[0].Check() == nil
		allowed := map[fileClass]bool{fcNew: true}
		if hadOld {
			allowed[fcOld] = true
		} else {
			allowed[fcAbsent], allowed[fcEmpty] = true, true
		}
		limit := 48
		if r.Tier == "thorough" {
			limit = 256
		}
		classes := map[string]int{}
		points := 0
		w.followUp = r.Choose("follow-up-after-crash", 2) == 1
		w.followSet = r.Choose("follow-up-default", 3)
		if sc.otherDev {
			w.followUp = false // every write fails there, before and after a crash
		}
		// crash points: before operation k (k = 0..nops), and inside each write
		type cp struct{ k, prefix int }
		var cps []cp
		for k := 0; k <= sc.nops; k++ {
			cps = append(cps, cp{k, 0})
			if k < sc.nops && sc.kinds[k] == "write" && sc.wlens[k] > 1 {
				for _, p := range []int{1, sc.wlens[k] / 2, sc.wlens[k] - 1} {
					if p > 0 && p < sc.wlens[k] {
						cps = append(cps, cp{k, p})
					}
				}
			}
		}
		skipped := 0
		for _, c := range cps {
			f := sc.pre.Clone()
			f.KeepLog = false
			c := c
			f.Plan = func(seq int, kind, real string) *simfs.Fault {
				if seq == c.k {
					if c.prefix > 0 {
						return &simfs.Fault{Crash: true, Short: c.prefix}
					}
					return &simfs.Fault{Crash: true}
				}
				return nil
			}
			w.use(f)
			err, crashed := w.runOp(op)
			what := fmt.Sprintf("crash before op %d/%d (%s)", c.k, sc.nops, kindAt(sc, c.k))
			if c.prefix > 0 {
				what = fmt.Sprintf("crash inside write op %d after %d of %d bytes", c.k, c.prefix, sc.wlens[c.k])
			}
			if !crashed {
				if c.k < sc.nops {
					// the execution did not repeat the operation sequence of the counting pass (code that
					// keeps buffers or caches at package level behaves differently the second time): this
					// crash point does not exist in this execution; the sweep goes on with the others
					r.Count("probe:crash-point-not-reached")
					skipped++
					if skipped > len(cps)/2 {
						r.Fail("harness/crash-not-reached", "%s: planned crash point not reached (err=%v), like %d others of %d", what, err, skipped-1, len(cps))
					}
					continue
				}
				f.Frozen = true
			}
			points++
			r.Count("fault:crash")
			// process-kill image
			cls := w.recovery(f.KillImage(), what+", process-kill image", op, sc.preSnap, preCheckOK, oldContent, hadOld, oldAux, oldPW, allowed)
			classes["kill:"+cls.String()]++
			r.Count("fault:process-kill")
			// power-loss images
			w.powerLossImages(f, limit, func(img *simfs.FS, desc string) {
				al := allowed
				if !crashed && c.k == sc.nops {
					// after the call returned success only the new record is acceptable (C09's clause;
					// reported there), here the three-way rule still applies
					al = allowed
				}
				cls := w.recovery(img, what+", power-loss image ["+desc+"]", op, sc.preSnap, preCheckOK, oldContent, hadOld, oldAux, oldPW, al)
				classes["power:"+cls.String()]++
				r.Count("fault:power-loss")
			})
		}
		// the same three-way rule when one system call of the execution reports an I/O error first
		// and the crash comes later: whatever the call does about the error (give up, clean up,
		// try again), no crash point after it may show anything but old / new / (add) nothing
		if !sc.otherDev && sc.nops > 0 && r.Choose("io-error-then-crash", 3) == 0 {
			ke := r.Choose("io-error-at", sc.nops)
			if es := errnosFor[sc.kinds[ke]]; len(es) > 0 {
				e := es[r.Choose("io-error-kind", len(es))]
				r.Count("fault:" + e.Error())
				for j := 0; j < 12; j++ {
					f := sc.pre.Clone()
					f.KeepLog = false
					kc := ke + 1 + j
					f.Plan = func(seq int, kind, real string) *simfs.Fault {
						if seq == ke {
							return &simfs.Fault{Errno: e}
						}
						if seq == kc {
							return &simfs.Fault{Crash: true}
						}
						return nil
					}
					w.use(f)
					err, crashed := w.runOp(op)
					what := fmt.Sprintf("%s injected into op %d/%d (%s), crash before the %d. operation after it", e, ke, sc.nops, sc.kinds[ke], j+1)
					if !crashed {
						what = fmt.Sprintf("%s injected into op %d/%d (%s), call returned %v, crash right after", e, ke, sc.nops, sc.kinds[ke], err)
						f.Frozen = true
					}
					points++
					r.Count("fault:crash")
					cls := w.recovery(f.KillImage(), what+", process-kill image", op, sc.preSnap, preCheckOK, oldContent, hadOld, oldAux, oldPW, allowed)
					classes["kill-after-error:"+cls.String()]++
					w.powerLossImages(f, limit/2, func(img *simfs.FS, desc string) {
						cls := w.recovery(img, what+", power-loss image ["+desc+"]", op, sc.preSnap, preCheckOK, oldContent, hadOld, oldAux, oldPW, allowed)
						classes["power-after-error:"+cls.String()]++
						r.Count("fault:power-loss")
					})
					if !crashed {
						break
					}
				}
				r.Count("probe:io-error-then-crash")
			}
		}
		// concurrent readers in another process, interleaved at single file-system operations
		w.readerClause(sc, hadOld, oldPW)
		r.Add("crash-points", points)
		r.Add("evaluations", points)
		r.Steps += points
		r.Nontrivial(fmt.Sprintf("%s|%s|%v|aux=%d", w.cfg.Desc(), op, sc.users, len(oldAux)))
		for k := range classes {
			r.Count("probe:image-" + k)
		}
		r.Sample(map[string]any{"operation": op.String(), "users": sc.users, "aux_bytes": len(oldAux), "fs_ops": sc.nops, "crash_points": points, "image_classes": classes})
	})
}

func kindAt(sc *scenario, k int) string {
	if k < len(sc.kinds) {
		return sc.kinds[k]
	}
	return "after return"
}

// propC09: after each acknowledged init / add / update / set-admin / remove, every
// power-loss image reachable from the state at return shows the change.
func propC09(r *Run) {
	inBubble(r, func(rr *randRecorder) {
		if r.Choose("two-writers", 8) == 0 {
			propC09TwoWriters(r, rr)
			return
		}
		scenarioOtherDev = true
		sc := genScenario(r, rr, []string{"add", "update", "set-admin", "remove", "init", "set-admin", "remove"})
		scenarioOtherDev = false
		w, op := sc.w, sc.op
		m := w.model[op.User]
		hadOld := m != nil
		var oldAux, oldContent string
		var oldAdmin bool
		if hadOld {
			oldAux, oldAdmin = m.Aux, m.Admin
			w.use(sc.pre.Clone())
			_, oldContent, _ = w.userFile(op.User)
		}
		limit := 64
		if r.Tier == "thorough" {
			limit = 512
		}
		// a short history: the operation under test, optionally followed by further
		// acknowledged operations on other users (later quiescent points)
		f := sc.pre.Clone()
		w.use(f)
		if !sc.otherDev && op.Kind != "init" && len(sc.users) > 1 && r.Choose("directory-replaced", 6) == 0 {
			// the store directory is replaced under the running instance (restore from a backup:
			// mv base base.old; cp -a backup base) after the instance has already written to it;
			// what is acknowledged afterwards must be durable in the directory now at that path
			other := sc.users[0]
			if other == op.User {
				other = sc.users[1]
			}
			if werr, _ := w.runOp(opSpec{Kind: "update", User: other, PW: "warm-up-password"}); werr != nil {
				r.Fail("harness/clean-op-failed", "warm-up update failed: %v", werr)
			}
			snap := f.Snapshot(w.base())
			if rerr := simfs.Rename(w.base(), w.base()+".old"); rerr != nil {
				r.Fail("harness/replace-dir", "%v", rerr)
			}
			f.PutDir(w.base(), 0o700)
			for _, p := range sortedKeys(snap) {
				if e := snap[p]; e.Kind == "file" && !strings.Contains(p[len(w.base()):], "/.tmp") {
					f.Put(p, []byte(e.Data), e.Perm)
				}
			}
			f.SyncAll()
			w.logPos = len(f.Log)
			w.extraOK = func(p string) bool { return strings.HasPrefix(p, w.base()+".old") }
			r.Count("probe:store-directory-replaced-under-instance")
		}
		ackedByFirst := false
		faultInRemove := false
		if !sc.otherDev && (op.Kind == "update" || op.Kind == "add" || op.Kind == "set-admin" || op.Kind == "remove") && r.Choose("retry-after-failed-attempt", 6) == 0 {
			// the acknowledged call is the operator's second attempt: the first one met an I/O error
			// somewhere and reported failure (whatever it left behind). What the retry acknowledges
			// must be durable all the same - it cannot lean on work the failed attempt did not finish.
			k := f.NOps + r.Choose("first-attempt-fault-at", max(sc.nops, 1))
			done := false
			f.Plan = func(seq int, kind, real string) *simfs.Fault {
				if done || seq < k {
					return nil
				}
				if e := errnosFor[kind]; len(e) > 0 {
					done = true
					return &simfs.Fault{Errno: e[0]}
				}
				return nil
			}
			ferr, _ := w.runOp(op)
			f.Plan = nil
			r.Logf("first attempt of %s with an injected fault -> %v", op, ferr)
			if ferr != nil {
				r.Count("probe:retry-after-reported-failure")
				if r.Choose("retry-from-new-process", 2) == 1 {
					// the operator runs the command again: a new process, a new instance, nothing of
					// what the failed one remembered
					if nd, nerr := w.newDir("/etc/whawty/store0.yaml"); nerr == nil {
						w.dirs[0] = nd
						r.Count("probe:retry-through-new-instance")
					} else {
						r.Fail("harness/config", "second instance: %v", nerr)
					}
				}
				if op.Kind == "add" {
					// a failed add may (known finding aside) not leave the user behind; if it did, the retry is an update
					if _, _, on := w.userFile(op.User); on {
						op.Kind = "update"
					}
				}
			} else {
				// the fault did not make the call fail (or was not reached): then this was the acknowledged call
				r.Count("probe:first-attempt-succeeded")
				ackedByFirst = true
				faultInRemove = op.Kind == "remove" && done
			}
			w.logPos = len(f.Log)
		}
		var err error
		if !ackedByFirst {
			err, _ = w.runOp(op)
		}
		if err != nil && sc.otherDev {
			r.Count("probe:refused-across-devices")
			return // nothing was acknowledged: nothing has to be durable (C08/C15 judge the refusal)
		}
		if err != nil {
			r.Fail("harness/clean-op-failed", "%s failed: %v", op, err)
		}
		dops, dfiles := f.PendingInfo()
		if dops+dfiles > 0 {
			r.Count("probe:pending-state-at-return")
		}
		images := 0
		w.powerLossImages(f, limit, func(img *simfs.FS, desc string) {
			images++
			w.use(img)
			what := fmt.Sprintf("power loss right after %s returned success, image [%s]", op, desc)
			switch op.Kind {
			case "init", "add", "update":
				cls, content := w.classify(op.User, oldContent, hadOld, oldAux, op.PW)
				if cls != fcNew {
					r.Fail("durability/"+op.Kind+"/"+cls.String(), "%s: file of %s is %s (%q)", what, op.User, cls, truncate(content, 80))
				}
				wantExt, otherExt := ".user", ".admin"
				if (op.Kind != "update" && op.Admin) || (op.Kind == "update" && oldAdmin) || op.Kind == "init" {
					wantExt, otherExt = ".admin", ".user"
				}
				if _, ok := img.Get(w.base() + "/" + op.User + wantExt); !ok {
					r.Fail("durability/"+op.Kind+"/wrong-extension", "%s: %s%s missing", what, op.User, wantExt)
				}
				if _, ok := img.Get(w.base() + "/" + op.User + otherExt); ok {
					r.Fail("durability/"+op.Kind+"/two-files", "%s: %s%s exists as well", what, op.User, otherExt)
				}
			case "set-admin":
				wantExt, otherExt := ".user", ".admin"
				if op.Admin {
					wantExt, otherExt = ".admin", ".user"
				}
				_, okW := img.Get(w.base() + "/" + op.User + wantExt)
				_, okO := img.Get(w.base() + "/" + op.User + otherExt)
				if !okW || okO {
					r.Fail("durability/set-admin/rename-not-durable", "%s: %s%s present=%v, %s%s present=%v", what, op.User, wantExt, okW, op.User, otherExt, okO)
				}
			case "remove":
				_, okA := img.Get(w.base() + "/" + op.User + ".admin")
				_, okU := img.Get(w.base() + "/" + op.User + ".user")
				if (okA || okU) && faultInRemove {
					// remove has no way to report an error: an I/O error on the unlink or on the flush of the
					// directory is swallowed and the removal acknowledged all the same
					r.Fail("durability/remove/io-error-not-reported", "%s (one file-system operation of the call had failed with an I/O error, which remove cannot report): the removed user's file is back", what)
				} else if okA || okU {
					r.Fail("durability/remove/unlink-not-durable", "%s: the removed user's file is back", what)
				}
			}
			r.Count("fault:power-loss")
		})
		// second clause: at every operation boundary of the call, no final name can come back
		// from a power loss pointing at content that is not a complete record (old or new) --
		// "a new record never becomes visible under its final name before its content is durable"
		if op.Kind == "init" || op.Kind == "add" || op.Kind == "update" {
			for k := 0; k <= sc.nops; k++ {
				g := sc.pre.Clone()
				g.KeepLog = false
				k := k
				g.Plan = func(seq int, kind, real string) *simfs.Fault {
					if seq == k {
						return &simfs.Fault{Crash: true}
					}
					return nil
				}
				w.use(g)
				w.runOp(op)
				for name, contents := range g.DurableCandidates(w.base()) {
					if name != op.User+".user" && name != op.User+".admin" {
						continue
					}
					for _, c := range contents {
						g2 := simfs.New()
						g2.PutDir(w.base(), 0o700)
						g2.Put(w.base()+"/"+name, []byte(c), 0o600)
						w.use(g2)
						cls, _ := w.classify(op.User, oldContent, hadOld, oldAux, op.PW)
						if cls == fcBad || (cls == fcEmpty && hadOld) {
							r.Fail("durability/"+op.Kind+"/visible-before-durable", "power loss before op %d/%d (%s) of %s can leave %s pointing at %s content %q", k, sc.nops, kindAt(sc, k), op, name, cls, truncate(c, 60))
						}
						images++
					}
				}
				r.Count("fault:crash")
			}
		}
		// third clause: the same under single I/O faults -- whenever the call still reports success
		// although one of its system calls failed, the acknowledged change must be just as durable
		faultSuccess := 0
		for k := 0; k < sc.nops; k++ {
			for _, e := range errnosFor[sc.kinds[k]] {
				g := sc.pre.Clone()
				g.KeepLog = false
				k, e := k, e
				g.Plan = func(seq int, kind, real string) *simfs.Fault {
					if seq == k {
						return &simfs.Fault{Errno: e}
					}
					return nil
				}
				w.use(g)
				ferr, _ := w.runOp(op)
				r.Count("fault:" + e.Error())
				if ferr != nil || op.Kind == "remove" {
					continue // a reported failure promises nothing (C15 judges it); remove reports nothing
				}
				faultSuccess++
				w.powerLossImages(g, limit/4+1, func(img *simfs.FS, desc string) {
					images++
					w.use(img)
					what := fmt.Sprintf("%s reported success although %s was injected into its op %d/%d (%s); power loss right after, image [%s]", op, e, k, sc.nops, sc.kinds[k], desc)
					switch op.Kind {
					case "init", "add", "update":
						if cls, content := w.classify(op.User, oldContent, hadOld, oldAux, op.PW); cls != fcNew {
							r.Fail("durability/"+op.Kind+"/success-after-fault-not-durable", "%s: file of %s is %s (%q)", what, op.User, cls, truncate(content, 60))
						}
					case "set-admin":
						wantExt, otherExt := ".user", ".admin"
						if op.Admin {
							wantExt, otherExt = ".admin", ".user"
						}
						_, okW := img.Get(w.base() + "/" + op.User + wantExt)
						_, okO := img.Get(w.base() + "/" + op.User + otherExt)
						if !okW || okO {
							r.Fail("durability/set-admin/success-after-fault-not-durable", "%s: %s%s present=%v, %s%s present=%v", what, op.User, wantExt, okW, op.User, otherExt, okO)
						}
					}
				})
			}
		}
		if faultSuccess > 0 {
			r.Count("probe:success-despite-injected-fault")
		}
		r.Add("evaluations", images)
		r.Steps += images
		r.Nontrivial(fmt.Sprintf("%s|%s|%v", w.cfg.Desc(), op, sc.users))
		r.Sample(map[string]any{"operation": op.String(), "users": sc.users, "pending_dir_ops_at_return": dops, "dirty_files_at_return": dfiles, "images": images})
	})
}

func truncate(s string, n int) string {
	if len(s) > n {
		return s[:n] + "..."
	}
	return s
}
