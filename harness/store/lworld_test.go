//go:build verif

package store

// Run class L (DESIGN.md 3): the real package store on the simulated disk, driven from
// harness goroutines inside a synctest bubble (fake clock), crypto/rand replaced by a
// seeded, recording stream.

import (
	"fmt"
	"io"
	"runtime/debug"
	"sort"
	"strings"
	"time"

	"github.com/whawty/auth/zzverif/simfs"
)

// MUser is the model's view of one user file.
type MUser struct {
	PW        string
	Set       PSet
	Admin     bool
	Stamp     int64
	Aux       string // bytes after the first line's newline
	HasNL     bool   // first line is newline-terminated
	Supported bool
	Raw       string // for unsupported files: full content
}

// World is one library-level simulation: a simulated disk, a configuration, one or more
// real store.Dir instances on it, and the reference model.
type World struct {
	libYields bool // the next interleaving is between two callers of one instance: hasher statements are scheduling points
	r      *Run
	fs     *simfs.FS
	cfg    Config
	sets   map[uint]PSet
	dirs   []*Dir   // real instances (possibly different defaults) over the same directory
	cfgs   []Config // configuration of each instance
	model  map[string]*MUser
	rr     *randRecorder
	logPos int
	segPos int
	extraOK func(real string) bool // additional paths the confinement invariant accepts
	tmpElsewhere bool // scenario: <base>/.tmp is a symlink to another device
	followUp  bool // C08: after recovery, carry on with another update
	followSet int
	cfgPath string
}

const cfgPath0 = "/etc/whawty/store.yaml"

func (w *World) base() string { return w.cfg.BaseDir }

// newWorld builds disk + config + instances. ninst > 1 adds instances with other defaults.
func newWorld(r *Run, rr *randRecorder, cfg Config, ninst int) *World {
	w := &World{r: r, cfg: cfg, sets: cfg.SetMap(), model: map[string]*MUser{}, rr: rr}
	w.fs = simfs.New()
	w.fs.Now = time.Now
	w.fs.KeepBytes = true
	w.fs.Choose = func(kind string, n int) int { return r.Choose(kind, n) }
	simfs.Cur = w.fs
	w.fs.PutDir(cfg.BaseDir, 0o700)
	w.fs.PutDir("/etc/whawty", 0o755)
	w.fs.PutDir("/tmp", 0o777) // the system temp directory exists, as on any real machine
	w.fs.PutDir("/var/tmp", 0o777)
	for i := 0; i < ninst; i++ {
		c := cfg
		if i > 0 {
			c.Default = cfg.Sets[r.Choose("inst-default", len(cfg.Sets))].ID
		}
		p := fmt.Sprintf("/etc/whawty/store%d.yaml", i)
		w.fs.Put(p, []byte(c.YAML()), 0o600)
		d, err := w.newDir(p)
		if err != nil {
			r.Fail("harness/config-rejected", "generated valid config rejected: %v\n%s", err, c.YAML())
		}
		w.dirs = append(w.dirs, d)
		w.cfgs = append(w.cfgs, c)
	}
	w.arm()
	r.Logf("world %s instances=%d", cfg.Desc(), ninst)
	return w
}

func (w *World) newDir(cfgfile string) (d *Dir, err error) {
	defer func() {
		if x := recover(); x != nil {
			if _, ok := x.(runAbort); ok {
				panic(x)
			}
			w.r.Fail("panic/config", "NewDirFromConfig panicked: %v\n%s", x, debug.Stack())
		}
	}()
	return NewDirFromConfig(cfgfile)
}

// arm starts the path/byte observation from "now".
func (w *World) arm() {
	w.logPos = len(w.fs.Log)
}

// userFile returns path and content of u's file in the volatile view.
func (w *World) userFile(u string) (path string, content string, ok bool) {
	for _, ext := range []string{".admin", ".user"} {
		p := w.base() + "/" + u + ext
		if b, ok := w.fs.Get(p); ok {
			return p, string(b), true
		}
	}
	return "", "", false
}

var validName = func(s string) bool {
	if s == "" {
		return false
	}
	for i := 0; i < len(s); i++ {
		c := s[i]
		alnum := c >= 'a' && c <= 'z' || c >= 'A' && c <= 'Z' || c >= '0' && c <= '9'
		if i == 0 && !alnum {
			return false
		}
		if !alnum && c != '-' && c != '_' && c != '.' && c != '@' {
			return false
		}
	}
	return true
}

// confinement is the C03 path invariant, armed in every run: every object opened as a
// file, created, written, renamed, removed since the last call lies where the schema
// says. Returns the list of offending records.
func (w *World) confinement() {
	base := w.base()
	for _, rec := range w.fs.Log[w.logPos:] {
		touch := rec.Mut || (rec.Cred && (rec.Kind == "open" || rec.Kind == "create"))
		if !touch {
			continue
		}
		for _, p := range []string{rec.Real, rec.Path2} {
			if p == "" || (rec.Kind == "symlink" && p == rec.Path2) {
				continue
			}
			if !w.pathAllowed(base, p) {
				w.r.FailOther("C03", "confinement/"+rec.Kind, "operation %s touched %q (given as %q), outside <base>/<name>.{user,admin} and <base>/.tmp/*", rec.Kind, p, rec.Path)
			}
		}
	}
	w.logPos = len(w.fs.Log)
}

func (w *World) pathAllowed(base, p string) bool {
	if p == base || p == base+"/.tmp" {
		return true
	}
	if w.extraOK != nil && w.extraOK(p) {
		return true
	}
	if !strings.HasPrefix(p, base+"/") {
		return false
	}
	rest := p[len(base)+1:]
	if strings.HasPrefix(rest, ".tmp/") {
		return !strings.Contains(rest[5:], "/") && rest[5:] != ""
	}
	if strings.Contains(rest, "/") {
		return false
	}
	for _, ext := range []string{".user", ".admin"} {
		if strings.HasSuffix(rest, ext) && len(rest) > len(ext) {
			return true
		}
	}
	return false
}

// guard runs one store call, converting a panic in repo code into a violation.
func (w *World) guard(what string, f func()) {
	// the call runs in a goroutine of its own so that one that never returns (a lock it waits
	// for, a retry loop that sleeps) is a finding - an hour of simulated time without a result -
	// rather than a hung run
	type outcome struct {
		pan   any
		stack string
	}
	done := make(chan outcome, 1)
	go func() {
		defer func() {
			x := recover()
			o := outcome{pan: x}
			if x != nil {
				o.stack = string(debug.Stack())
			}
			done <- o
		}()
		f()
	}()
	select {
	case o := <-done:
		if x := o.pan; x != nil {
			if _, ok := x.(runAbort); ok {
				panic(x)
			}
			if _, ok := x.(simfs.CrashSignal); ok {
				panic(x)
			}
			w.r.Fail("panic/"+what, "%s panicked: %v\n%s", what, x, o.stack)
		}
	case <-time.After(time.Hour):
		w.r.Fail("operation/never-returns", "%s has not returned after an hour of simulated time (it waits for something that never happens, or retries for ever)", what)
	}
}

func sortedKeys[V any](m map[string]V) []string {
	var k []string
	for s := range m {
		k = append(k, s)
	}
	sort.Strings(k)
	return k
}

// tmpClean: the work area is empty or absent.
func (w *World) tmpEntries() []string {
	return w.fs.Names(w.base() + "/.tmp")
}

// recordOf parses u's current file with the reference implementation.
func (w *World) recordOf(u string) (RefRecord, string, error) {
	_, content, ok := w.userFile(u)
	if !ok {
		return RefRecord{}, "", fmt.Errorf("no file")
	}
	line, _ := FirstLine(content)
	rec, err := ParseStrict(line)
	return rec, content, err
}

var _ = io.EOF
