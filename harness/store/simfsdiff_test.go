//go:build verif

package store

// Differential self-test of the simulated disk (DESIGN.md 2.4 "Fidelity"): random
// sequences of the operations and flag combinations package store uses (plus
// neighbours) run against a real temporary directory and against simfs; results, error
// classes and resulting trees must agree.

import (
	"errors"
	"fmt"
	"io"
	"io/fs"
	"os"
	"path/filepath"
	"sort"
	"strings"
	"syscall"

	"github.com/whawty/auth/zzverif/simfs"
)

func init() { register("X-SIMFS", propSimfsDiff) }

func errClass(err error) string {
	if err == nil {
		return "ok"
	}
	if err == io.EOF {
		return "EOF"
	}
	var en syscall.Errno
	if errors.As(err, &en) {
		return en.Error()
	}
	if errors.Is(err, fs.ErrClosed) {
		return "closed"
	}
	return "other:" + err.Error()
}

func propSimfsDiff(r *Run) {
	root, err := os.MkdirTemp(".", "simfsdiff")
	if err != nil {
		r.Fail("harness/tempdir", "%v", err)
	}
	root, _ = filepath.Abs(root)
	defer os.RemoveAll(root)
	sf := simfs.New()
	sf.PutDir(root, 0o755)
	simfs.Cur = sf
	names := []string{"a", "b", "d", "d/x", "d/y", "d/e", "d/e/z", ".tmp", ".tmp/t1", "d/../a", "./b", "nope/x", "a/x", strings.Repeat("n", 256), "d/./x"}
	type hpair struct {
		rf *os.File
		sf *simfs.File
	}
	var handles []hpair
	n := 10 + r.Choose("n", 40)
	for i := 0; i < n; i++ {
		nm := names[r.Choose("name", len(names))]
		p := root + "/" + nm
		var rc, sc string
		desc := ""
		switch op := r.Choose("op", 14); op {
		case 0:
			flags := []int{os.O_RDONLY, os.O_RDONLY | os.O_EXCL, os.O_RDONLY | os.O_EXCL | os.O_CREATE, os.O_RDWR | os.O_CREATE, os.O_WRONLY | os.O_CREATE | os.O_TRUNC, os.O_RDWR | os.O_CREATE | os.O_EXCL, os.O_WRONLY, os.O_RDWR | os.O_APPEND}[r.Choose("flags", 8)]
			rf, e1 := os.OpenFile(p, flags, 0o600)
			s, e2 := simfs.OpenFile(p, flags, 0o600)
			rc, sc = errClass(e1), errClass(e2)
			desc = fmt.Sprintf("open(%s,%#x)", nm, flags)
			if e1 == nil && e2 == nil {
				handles = append(handles, hpair{rf, s})
			} else {
				if rf != nil {
					rf.Close()
				}
				if s != nil {
					s.Close()
				}
			}
		case 1:
			e1 := os.Mkdir(p, 0o700)
			e2 := simfs.Mkdir(p, 0o700)
			rc, sc, desc = errClass(e1), errClass(e2), "mkdir("+nm+")"
		case 2:
			e1 := os.MkdirAll(p, 0o700)
			e2 := simfs.MkdirAll(p, 0o700)
			rc, sc, desc = errClass(e1), errClass(e2), "mkdirall("+nm+")"
		case 3:
			e1 := os.Remove(p)
			e2 := simfs.Remove(p)
			rc, sc, desc = errClass(e1), errClass(e2), "remove("+nm+")"
		case 4:
			nm2 := names[r.Choose("name2", len(names))]
			e1 := os.Rename(p, root+"/"+nm2)
			e2 := simfs.Rename(p, root+"/"+nm2)
			rc, sc, desc = errClass(e1), errClass(e2), "rename("+nm+","+nm2+")"
			if strings.HasPrefix(rc, "invalid argument") || rc == "device or resource busy" {
				// renaming a directory into itself etc.: errno choice differs between kernels; accept any failure
				if e2 != nil {
					sc = rc
				}
			}
		case 5:
			i1, e1 := os.Stat(p)
			i2, e2 := simfs.Stat(p)
			rc, sc, desc = errClass(e1), errClass(e2), "stat("+nm+")"
			if e1 == nil && e2 == nil {
				rc += fmt.Sprintf(" dir=%v size=%d", i1.IsDir(), sizeOf(i1))
				sc += fmt.Sprintf(" dir=%v size=%d", i2.IsDir(), sizeOf(i2))
			}
		case 6, 7:
			if len(handles) == 0 {
				continue
			}
			h := handles[r.Choose("h", len(handles))]
			data := []byte(strings.Repeat("x", 1+r.Choose("wlen", 50)))
			n1, e1 := h.rf.Write(data)
			n2, e2 := h.sf.Write(data)
			rc, sc, desc = fmt.Sprintf("%d %s", n1, errClass(e1)), fmt.Sprintf("%d %s", n2, errClass(e2)), "write("+rel(root, h.sf.Name())+")"
		case 8:
			if len(handles) == 0 {
				continue
			}
			h := handles[r.Choose("h", len(handles))]
			if fi, err := h.rf.Stat(); err == nil && fi.IsDir() {
				continue // read(2) on a directory handle: not an operation the store performs
			}
			b1, b2 := make([]byte, 16), make([]byte, 16)
			n1, e1 := h.rf.Read(b1)
			n2, e2 := h.sf.Read(b2)
			rc, sc, desc = fmt.Sprintf("%d %s %q", n1, errClass(e1), b1[:n1]), fmt.Sprintf("%d %s %q", n2, errClass(e2), b2[:n2]), "read("+rel(root, h.sf.Name())+")"
		case 9:
			if len(handles) == 0 {
				continue
			}
			k := r.Choose("h", len(handles))
			h := handles[k]
			e1, e2 := h.rf.Close(), h.sf.Close()
			handles = append(handles[:k], handles[k+1:]...)
			rc, sc, desc = errClass(e1), errClass(e2), "close"
		case 10:
			// directory listing on a fresh handle (iteration while the directory changes is
			// unspecified by POSIX and not something the dispatcher-serialised store does)
			cnt := []int{0, -1, 1, 2, 3}[r.Choose("cnt", 5)]
			rf, e1 := os.Open(p)
			s, e2 := simfs.Open(p)
			rc, sc, desc = errClass(e1), errClass(e2), fmt.Sprintf("listdir(%s,%d)", nm, cnt)
			if e1 == nil && e2 == nil {
				var a1, a2 []string
				for k := 0; k < 20; k++ {
					l1, x1 := rf.Readdirnames(cnt)
					l2, x2 := s.Readdirnames(cnt)
					a1, a2 = append(a1, l1...), append(a2, l2...)
					if cnt > 0 && len(l1) != len(l2) && (len(l1) > cnt || len(l2) > cnt) {
						rc, sc = "chunk too large", "ok"
					}
					if errClass(x1) != errClass(x2) && cnt <= 0 {
						rc, sc = errClass(x1), errClass(x2)
						break
					}
					if cnt <= 0 || (x1 != nil && x2 != nil) {
						rc += " " + errClass(x1)
						sc += " " + errClass(x2)
						break
					}
					if (x1 != nil) != (x2 != nil) && len(a1) == len(a2) {
						// one side reports EOF one call later: fine as long as contents agree
						continue
					}
				}
				sort.Strings(a1)
				sort.Strings(a2)
				rc += fmt.Sprint(a1)
				sc += fmt.Sprint(a2)
			}
			if rf != nil {
				rf.Close()
			}
			if s != nil {
				s.Close()
			}
		case 11:
			if len(handles) == 0 {
				continue
			}
			h := handles[r.Choose("h", len(handles))]
			e1, e2 := h.rf.Sync(), h.sf.Sync()
			rc, sc, desc = errClass(e1), errClass(e2), "sync"
		case 12:
			if len(handles) == 0 {
				continue
			}
			h := handles[r.Choose("h", len(handles))]
			i1, e1 := h.rf.Stat()
			i2, e2 := h.sf.Stat()
			rc, sc, desc = errClass(e1), errClass(e2), "fstat"
			if e1 == nil && e2 == nil {
				rc += fmt.Sprintf(" dir=%v size=%d", i1.IsDir(), sizeOf(i1))
				sc += fmt.Sprintf(" dir=%v size=%d", i2.IsDir(), sizeOf(i2))
			}
		case 13:
			d1, e1 := os.ReadFile(p)
			d2, e2 := simfs.ReadFile(p)
			rc, sc, desc = fmt.Sprintf("%s %q", errClass(e1), d1), fmt.Sprintf("%s %q", errClass(e2), d2), "readfile("+nm+")"
		}
		r.Logf("#%d %s: kernel=%s simfs=%s", i, desc, rc, sc)
		if rc != sc {
			r.Fail("simfs/diverges", "%s: kernel says %q, simfs says %q", desc, rc, sc)
		}
	}
	for _, h := range handles {
		h.rf.Close()
		h.sf.Close()
	}
	// resulting trees
	realTree := map[string]string{}
	filepath.Walk(root, func(p string, info fs.FileInfo, err error) error {
		if err != nil || p == root {
			return nil
		}
		if info.IsDir() {
			realTree[p] = "dir"
		} else {
			b, _ := os.ReadFile(p)
			realTree[p] = "file:" + string(b)
		}
		return nil
	})
	simTree := map[string]string{}
	for p, e := range sf.Snapshot(root) {
		if p == root {
			continue
		}
		if e.Kind == "dir" {
			simTree[p] = "dir"
		} else {
			simTree[p] = "file:" + e.Data
		}
	}
	if fmt.Sprint(realTree) != fmt.Sprint(simTree) {
		r.Fail("simfs/tree-diverges", "kernel tree %v, simfs tree %v", realTree, simTree)
	}
	r.Steps += n
	r.Nontrivial(fmt.Sprint(r.T.Values()))
	r.Sample(map[string]any{"ops": n, "entries": len(realTree)})
}

func rel(root, p string) string { return strings.TrimPrefix(p, root+"/") }

func sizeOf(i fs.FileInfo) int64 {
	if i.IsDir() {
		return 0
	}
	return i.Size()
}
