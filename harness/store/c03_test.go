//go:build verif

package store

import (
	"fmt"
	"strings"

	"github.com/whawty/auth/zzverif/simfs"
	"github.com/whawty/auth/zzverif/simrt"
)

func init() {
	register("C03", propC03)
	register("C16", propC16)
}

// hostileNames: names outside the schema's grammar, many of which reach another file
// once joined to the base directory.
func hostileName(r *Run, w *World, users []string) string {
	victim := users[r.Choose("hn-victim", len(users))]
	pool := []string{
		"", ".", "..", "/", "-dash", ".hidden", "_under", "@at", "a b", "a\tb", "a\nb", "a\x00b", "ä", "a/b", "a\\b", "a:b", "a*",
		"../sibling/" + victim, "../sibling/./" + victim, "../../srv/whawty/sibling/" + victim, "/srv/whawty/sibling/" + victim,
		"x/../" + victim, "./" + victim, victim + "/", victim + "/.", "//" + victim, "../base/" + victim,
		"sub/" + victim, ".tmp/" + victim, "../decoy", "../../../etc/whawty/store0", "/etc/passwd",
		strings.Repeat("n", 256), strings.Repeat("n", 5000), victim + ".user", victim + ".admin", victim + "\x00", victim + " ",
		"../sibling/" + victim + "\x00", victim + ".admin/../" + victim,
		// short once cleaned, although the string is longer than any file name
		strings.Repeat("x/../", 60) + "../sibling/" + victim, strings.Repeat("x/../", 52) + victim, strings.Repeat("./", 130) + victim, strings.Repeat("x/../", 60) + "../decoy",
		// letters that case-folding maps onto ASCII (Kelvin sign, long s), full-width and other look-alikes
		"\u212aevin", "\u017fam", "a\u212a", "bo\u017f", "\uff41lice", "\u0430lice", "alice\u0300", "\u00c5ke", "K\u0131m",
	}
	return pool[r.Choose("hostile", len(pool))]
}

// propC03: hostile names x every store operation on a tree with a sibling store (same
// user names, known passwords), decoys and symlinks outside the base.
func propC03(r *Run) {
	inBubble(r, func(rr *randRecorder) {
		cfg := GenConfig(r, "/srv/whawty/base")
		w := newWorld(r, rr, cfg, 1)
		users := w.populate(1 + r.Choose("nusers", 4))
		// sibling store with the same names but other passwords, decoys
		sib := "/srv/whawty/sibling"
		w.fs.PutDir(sib, 0o700)
		def := w.sets[cfg.Default]
		for i, u := range users {
			salt := make([]byte, def.SaltLen())
			salt[0] = byte(i + 1)
			ext := ".user"
			if i%2 == 0 {
				ext = ".admin"
			}
			w.fs.Put(sib+"/"+u+ext, []byte(RefWrite(def, "sibling-"+u, salt, 1000)+"\n"), 0o600)
		}
		w.fs.Put("/srv/whawty/decoy.user", []byte(RefWrite(def, "decoy", make([]byte, def.SaltLen()), 1000)+"\n"), 0o600)
		w.fs.Put("/srv/whawty/decoy.admin", []byte("x"), 0o600)
		w.fs.PutDir(w.base()+"/sub", 0o700) // makes Check fail, irrelevant here; holds a copy of a user
		w.fs.Put(w.base()+"/sub/"+users[0]+".user", []byte(RefWrite(def, "sub-"+users[0], make([]byte, def.SaltLen()), 1000)+"\n"), 0o600)
		w.fs.Put("/etc/passwd.user", []byte("root"), 0o644)
		// what a bare extension resolves to when a name is dropped and the path becomes relative:
		// files in the process's working directory
		w.fs.Put("/.user", []byte(RefWrite(def, "cwd-decoy", make([]byte, def.SaltLen()), 1000)+"\n"), 0o600)
		w.fs.Put("/.admin", []byte(RefWrite(def, "cwd-decoy", make([]byte, def.SaltLen()), 1000)+"\n"), 0o600)
		if r.Choose("with-tmp-user", 2) == 1 {
			w.fs.PutDir(w.base()+"/.tmp", 0o700)
			w.fs.Put(w.base()+"/.tmp/"+users[0]+".user", []byte(RefWrite(def, "tmp-"+users[0], make([]byte, def.SaltLen()), 1000)+"\n"), 0o600)
		}
		w.arm()
		d := w.dirs[0]
		n := 4 + r.Choose("nops", 12)
		var tried []string
		for i := 0; i < n; i++ {
			name := hostileName(r, w, users)
			if validName(name) {
				continue
			}
			before := w.fs.SnapshotAll()
			op := r.Choose("op", 7)
			opname := []string{"authenticate", "add", "update", "set-admin", "remove", "exists", "init"}[op]
			var err error
			var ok bool
			pws := []string{"sibling-" + users[0], "decoy", "x", "sub-" + users[0], "tmp-" + users[0]}
			for _, u := range users {
				pws = append(pws, "sibling-"+u, w.model[u].PW)
			}
			w.guard(opname, func() {
				switch op {
				case 0:
					for _, pw := range pws {
						if a, _, _, _, _ := d.Authenticate(name, pw); a {
							ok = true
							r.Fail("invalid-name/authenticated", "Authenticate(%s, %s) succeeded for a name outside the grammar", simrt.Q(name), simrt.Q(pw))
						}
					}
				case 1:
					err = d.AddUser(name, "pw", r.Choose("admin", 2) == 1)
					if err == nil {
						r.Fail("invalid-name/add-succeeded", "AddUser(%s) succeeded", simrt.Q(name))
					}
				case 2:
					err = d.UpdateUser(name, "hijacked")
				case 3:
					err = d.SetAdmin(name, r.Choose("admin", 2) == 1)
				case 4:
					d.RemoveUser(name)
				case 5:
					ex, _, _ := d.Exists(name)
					_ = ex
				case 6:
					err = d.Init(name, "pw")
				}
			})
			_ = ok
			r.Logf("#%d %s(%s) -> %v", i, opname, simrt.Q(name), err)
			tried = append(tried, opname+"("+simrt.Q(name)+")")
			r.Nontrivial(opname + "|" + name)
			w.confinement()
			after := w.fs.SnapshotAll()
			if diff := simfs.DiffSnap(before, after); len(diff) > 0 {
				// an invalid name must fail or be a no-op
				var real []string
				for _, dd := range diff {
					if !strings.HasSuffix(dd, w.base()+"/.tmp") {
						real = append(real, dd)
					}
				}
				if len(real) > 0 {
					r.Fail("invalid-name/"+opname+"-changed-files", "%s(%s) (err=%v) changed the file system: %v", opname, simrt.Q(name), err, real)
				}
			}
			// the legitimate users are unaffected
			for _, u := range users {
				w.checkAuth("C03", 0, u, w.model[u].PW)
			}
		}
		// valid names, but a work area that cannot be used (.tmp is a regular file or a dangling
		// symlink): whatever the operation does then, it must not wander off to another directory
		if r.Choose("tmp-unusable", 3) == 0 {
			w.fs.Delete(w.base() + "/.tmp/" + users[0] + ".user")
			w.fs.Delete(w.base() + "/.tmp")
			if r.Choose("tmp-kind", 2) == 0 {
				w.fs.Put(w.base()+"/.tmp", []byte("not a directory"), 0o600)
			} else {
				w.fs.PutSymlink("/nonexistent/target", w.base()+"/.tmp")
			}
			w.arm()
			for k := 0; k < 3; k++ {
				u := users[r.Choose("tu-user", len(users))]
				var err error
				switch r.Choose("tu-op", 3) {
				case 0:
					w.guard("update", func() { err = d.UpdateUser(u, "new-password") })
				case 1:
					w.guard("add", func() { err = d.AddUser("brandnew", "pw", false) })
				case 2:
					w.guard("set-admin", func() { err = d.SetAdmin(u, true) })
				}
				r.Logf("unusable work area: op on %s -> %v", u, err)
				r.Nontrivial(fmt.Sprintf("tmp-unusable|%d", k))
				w.confinement()
			}
			return
		}
		// files with invalid names never count as users / as the required administrator
		if r.Choose("invalid-files", 2) == 1 {
			w.fs.Delete(w.base() + "/sub/" + users[0] + ".user")
			w.fs.Delete(w.base() + "/sub")
			for _, u := range users {
				if w.model[u].Admin {
					w.fs.Delete(w.base() + "/" + u + ".admin")
					delete(w.model, u)
				}
			}
			bad := []string{"-evil", ".dot", "_x", "@y", "sp ace", "ü", "\u212aevin", "\u017fam", "a\u212a"}[r.Choose("badfile", 9)]
			w.fs.Put(w.base()+"/"+bad+".admin", []byte(RefWrite(def, "evil", make([]byte, def.SaltLen()), 1000)+"\n"), 0o600)
			w.arm()
			lst, _ := d.List()
			if _, ok := lst[bad]; ok {
				r.Fail("invalid-file/listed", "file %s.admin with an invalid name is listed as a user", simrt.Q(bad))
			}
			var cerr error
			w.guard("check", func() { cerr = d.Check() })
			if cerr == nil {
				r.Fail("invalid-file/counts-as-admin", "Check accepts a directory whose only administrator file is %s.admin (invalid user name)", simrt.Q(bad))
			}
			if a, _, _, _, _ := d.Authenticate(bad, "evil"); a {
				r.Fail("invalid-name/authenticated", "Authenticate(%s) succeeded for an invalid-named file", simrt.Q(bad))
			}
			r.Nontrivial("invalid-file|" + bad)
			w.confinement()
		}
		// a record that is a symbolic link to a hash file outside the base directory (shared
		// between two stores, or put elsewhere by the operator): reading through it is the
		// operator's choice, but nothing the store does may *modify* anything out there
		if r.Choose("linked-record", 3) == 0 {
			out := "/srv/elsewhere"
			w.fs.PutDir(out, 0o700)
			target := out + "/shared.user"
			orig := RefWrite(def, "linked-pw", make([]byte, def.SaltLen()), 1000) + "\ntotp: keep-me\n"
			w.fs.Put(target, []byte(orig), 0o600)
			w.fs.PutSymlink(target, w.base()+"/linked.user")
			w.arm()
			for i, n := 0, 2+r.Choose("linked-ops", 3); i < n; i++ {
				pos := len(w.fs.Log)
				var err error
				what := ""
				switch r.Choose("linked-op", 4) {
				case 0:
					what = "update(linked)"
					w.guard("update", func() { err = d.UpdateUser("linked", fmt.Sprintf("linked-pw-%d", i)) })
				case 1:
					what = "set-admin(linked)"
					w.guard("set-admin", func() { err = d.SetAdmin("linked", i%2 == 0) })
				case 2:
					what = "authenticate(linked)"
					w.guard("authenticate", func() { d.Authenticate("linked", "linked-pw") }) //nolint
				case 3:
					what = "remove(linked)"
					w.guard("remove", func() { d.RemoveUser("linked") })
				}
				for _, rec := range w.fs.Log[pos:] {
					for _, p := range []string{rec.Real, rec.Path2} {
						if rec.Mut && rec.Kind != "symlink" && p != "" && p != w.base() && !strings.HasPrefix(p, w.base()+"/") {
							r.Fail("confinement/through-linked-record", "%s (err=%v) on a record that is a symlink to %s: %s modified %q outside the base directory", what, err, target, rec.Kind, p)
						}
					}
				}
				if b, ok := w.fs.Get(target); !ok || string(b) != orig {
					r.Fail("confinement/through-linked-record", "%s (err=%v): the hash file outside the base directory was changed or removed (now %s)", what, err, simrt.Q(string(b)))
				}
				w.logPos = len(w.fs.Log)
				r.Nontrivial("linked|" + what)
			}
			r.Count("probe:records-linked-to-outside-files")
		}
		r.Steps += n
		r.Sample(map[string]any{"config": cfg.Desc(), "users": users, "calls": tried})
	})
}

// ---------------------------------------------------------------------------------
// C16

type genEntry struct {
	name string
	kind string // supported unsupported empty dir other
}

// refCheck is the sentence of C16 over a generated directory (nil = accepted).
func refCheck(ents []genEntry, readable bool) error {
	if !readable {
		return fmt.Errorf("unreadable")
	}
	users := map[string]int{}
	okAdmin := false
	for _, e := range ents {
		if e.name == ".tmp" {
			continue
		}
		var base string
		switch {
		case strings.HasSuffix(e.name, ".user"):
			base = strings.TrimSuffix(e.name, ".user")
		case strings.HasSuffix(e.name, ".admin"):
			base = strings.TrimSuffix(e.name, ".admin")
			if e.kind == "supported" {
				okAdmin = true
			}
		default:
			return fmt.Errorf("entry %q is neither .user nor .admin", e.name)
		}
		users[base]++
		if users[base] > 1 {
			return fmt.Errorf("%q has both", base)
		}
	}
	if !okAdmin {
		return fmt.Errorf("no admin with a supported hash")
	}
	return nil
}

func propC16(r *Run) {
	inBubble(r, func(rr *randRecorder) {
		cfg := GenConfig(r, "/srv/whawty/base")
		w := newWorld(r, rr, cfg, 1)
		d := w.dirs[0]
		def := w.sets[cfg.Default]
		names := []string{"alice", "bob", "a.user", "x.admin", "0", "d@example.org", "bob.smith", "alice.b.c", "a"}
		mode := r.Choose("mode", 3)
		switch mode {
		case 0, 1: // generated directory vs reference predicate
			n := r.Choose("nentries", 6)
			var ents []genEntry
			used := map[string]bool{}
			for i := 0; i < n; i++ {
				nm := names[r.Choose("ename", len(names))]
				ext := []string{".user", ".admin", ".admin", ".txt", "", ".USER", ".user.bak"}[r.Choose("eext", 7)]
				kind := []string{"supported", "supported", "unsupported", "empty", "dir"}[r.Choose("ekind", 5)]
				full := nm + ext
				if used[full] || full == ".tmp" {
					continue
				}
				used[full] = true
				p := w.base() + "/" + full
				switch kind {
				case "supported":
					set := w.cfg.Sets[r.Choose("eset", len(w.cfg.Sets))]
					w.fs.Put(p, []byte(RefWrite(set, "pw-"+nm, make([]byte, set.SaltLen()), 12345)+"\n"), 0o600)
				case "unsupported":
					w.fs.Put(p, []byte(recLine(def.Algo, "12345", fmt.Sprint(unknownID(w)), "QUJD", "QUJD")+"\n"), 0o600)
				case "empty":
					w.fs.Put(p, nil, 0o600)
				case "dir":
					w.fs.PutDir(p, 0o700)
				}
				ents = append(ents, genEntry{full, kind})
			}
			if r.Choose("large-directory", 25) == 0 {
				// more entries than any plausible read batch: the rule is about the whole directory
				nf := 250 + r.Choose("nfiller", 300)
				line := RefWrite(def, "filler", make([]byte, def.SaltLen()), 12345) + "\n"
				for i := 0; i < nf; i++ {
					full := fmt.Sprintf("filler%03d.user", i)
					w.fs.Put(w.base()+"/"+full, []byte(line), 0o600)
					ents = append(ents, genEntry{full, "supported"})
				}
				if r.Choose("large-dir-duplicate", 2) == 1 {
					for _, full := range []string{"zz-both.user", "zz-both.admin"} {
						w.fs.Put(w.base()+"/"+full, []byte(line), 0o600)
						ents = append(ents, genEntry{full, "supported"})
					}
				}
				r.Count("probe:directories-with-hundreds-of-entries")
			}
			tmpKind := r.Choose("tmpkind", 4) // absent, dir, dir with residue, a regular file of that name
			if tmpKind == 3 {
				w.fs.Put(w.base()+"/.tmp", []byte("not a directory"), 0o600)
			} else if tmpKind >= 1 {
				w.fs.PutDir(w.base()+"/.tmp", 0o700)
				if tmpKind == 2 {
					w.fs.Put(w.base()+"/.tmp/123456", []byte("leftover"), 0o600)
				}
			}
			readable := true
			if r.Choose("unreadable", 8) == 0 {
				w.fs.Enforce = true
				w.fs.SetPerm(w.base(), 0o300)
				readable = false
			}
			w.arm()
			want := refCheck(ents, readable)
			var got error
			for rep := 0; rep < 3; rep++ { // several directory iteration orders
				w.guard("check", func() { got = d.Check() })
				if (got == nil) != (want == nil) {
					r.Fail("check/inexact", "Check = %v, the rule says %v for %d entries %v (tmp=%d readable=%v)", got, want, len(ents), ents[:min(len(ents), 12)], tmpKind, readable)
				}
			}
			if w.fs.Mutations != 0 {
				r.FailOther("C15", "read-only/check/mutated", "check mutated the file system")
			}
			r.Nontrivial(fmt.Sprintf("%v|%d|%d|%v", ents[:min(len(ents), 12)], len(ents), tmpKind, readable))
			// init: succeeds only on an empty directory (ignoring .tmp) and yields a valid store
			empty := len(ents) == 0
			var ierr error
			w.guard("init", func() { ierr = d.Init("root", "initpw") })
			if readable {
				if empty && ierr != nil && tmpKind != 3 {
					r.Fail("init/refused-empty", "Init on an empty directory (tmp=%d) failed: %v", tmpKind, ierr)
				}
				if !empty && ierr == nil {
					r.Fail("init/accepted-nonempty", "Init succeeded on a directory containing %v", ents)
				}
				if ierr == nil {
					var cerr error
					w.guard("check", func() { cerr = d.Check() })
					if cerr != nil {
						r.Fail("init/invalid-result", "store fails the check right after Init: %v", cerr)
					}
				}
			} else if ierr == nil {
				r.Fail("init/accepted-unreadable", "Init succeeded on an unreadable directory")
			}
			w.confinement()
			r.Sample(map[string]any{"entries": ents, "tmp": tmpKind, "readable": readable, "rule": fmt.Sprint(want), "check": fmt.Sprint(got)})
		case 2: // histories from a valid store keep it valid, with and without single injected faults
			users := w.populate(1 + r.Choose("nusers", 4))
			w.arm()
			n := 5 + r.Choose("nops", 25)
			var hist []string
			tainted := false // after a faulty call the password model is no longer exact: structural invariants only
			onDisk := func(u string) (exists, admin bool) {
				if _, ok := w.fs.Get(w.base() + "/" + u + ".admin"); ok {
					return true, true
				}
				_, ok := w.fs.Get(w.base() + "/" + u + ".user")
				return ok, false
			}
			for i := 0; i < n; i++ {
				u := append(users, "newbie", "zed")[r.Choose("user", len(users)+2)]
				op := r.Choose("op", 5)
				admins := 0
				for _, nm := range w.fs.Names(w.base()) {
					if strings.HasSuffix(nm, ".admin") {
						admins++
					}
				}
				ex, adm := onDisk(u)
				lastAdmin := ex && adm && admins == 1
				faulty := r.Choose("inject-fault", 4) == 0
				if faulty {
					tainted = true
					k := w.fs.NOps + r.Choose("fault-at", 24)
					pick := r.Choose("fault-errno", 4)
					w.fs.Plan = func(seq int, kind, real string) *simfs.Fault {
						if seq == k {
							if kind == "open" && !strings.HasSuffix(real, ".user") && !strings.HasSuffix(real, ".admin") && strings.Contains(real, "/.tmp/") {
								kind = "create"
							}
							if e := errnosFor[kind]; len(e) > 0 {
								return &simfs.Fault{Errno: e[pick%len(e)]}
							}
						}
						return nil
					}
					r.Count("fault:single-io-error-in-history")
				}
				var err error
				opname := ""
				switch op {
				case 0:
					adm := r.Choose("admin", 2) == 1
					pw := GenPassword(r)
					opname = "add"
					w.guard("add", func() { err = d.AddUser(u, pw, adm) })
					if !tainted && w.mAdd(u, pw, adm, 0) != (err == nil) {
						r.FailOther("C01", "result/add", "add(%s) err=%v", u, err)
					}
				case 1:
					pw := GenPassword(r)
					opname = "update"
					w.guard("update", func() { err = d.UpdateUser(u, pw) })
					if !tainted && w.mUpdate(u, pw, 0) != (err == nil) {
						r.FailOther("C01", "result/update", "update(%s) err=%v", u, err)
					}
				case 2:
					adm := r.Choose("admin", 2) == 1
					if lastAdmin && !adm {
						w.fs.Plan = nil
						continue // the property excludes demoting the last administrator
					}
					opname = "set-admin"
					w.guard("set-admin", func() { err = d.SetAdmin(u, adm) })
					if m := w.model[u]; m != nil && err == nil {
						m.Admin = adm
					}
				case 3:
					if lastAdmin {
						w.fs.Plan = nil
						continue
					}
					opname = "remove"
					w.guard("remove", func() { d.RemoveUser(u) })
					delete(w.model, u)
				case 4:
					opname = "authenticate"
					if m := w.model[u]; m != nil && !tainted {
						w.checkAuth("C16", 0, u, m.PW)
					} else {
						w.guard("authenticate", func() { d.Authenticate(u, "x") }) //nolint
					}
				}
				w.fs.Plan = nil
				hist = append(hist, fmt.Sprintf("%s(%s)fault=%v:%v", opname, u, faulty, err == nil))
				var cerr error
				w.guard("check", func() { cerr = d.Check() })
				if cerr != nil {
					r.Fail("history/invalid-store", "after %v the store fails the consistency check: %v", hist, cerr)
				}
				if tmp := w.tmpEntries(); len(tmp) > 0 {
					r.Fail("history/tmp-residue", "work area not empty after completed operation %v: %v", hist[len(hist)-1], tmp)
				}
				for _, nm := range w.fs.Names(w.base()) {
					if strings.HasSuffix(nm, ".user") {
						if _, ok := w.fs.Get(w.base() + "/" + strings.TrimSuffix(nm, ".user") + ".admin"); ok {
							r.Fail("history/two-files", "two files for %s after %v", nm, hist)
						}
					}
					if nm != ".tmp" && !strings.HasSuffix(nm, ".user") && !strings.HasSuffix(nm, ".admin") {
						r.Fail("history/foreign-entry", "entry %s appeared after %v", nm, hist)
					}
				}
				w.confinement()
			}
			r.Nontrivial(fmt.Sprintf("%s|%v", cfg.Desc(), hist))
			r.Sample(map[string]any{"history": hist})
		}
		r.Steps++
	})
}
