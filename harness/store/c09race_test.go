//go:build verif

package store

// C09 with two writers in one process (two requests handled by goroutines of one program that
// uses the library, or the agent and a maintenance job sharing code): each acknowledged change
// is durable on its own account - a writer must not rely on a directory flush that another
// writer started before this writer's rename.

import (
	"fmt"

	"github.com/whawty/auth/zzverif/simfs"
)

func propC09TwoWriters(r *Run, rr *randRecorder) {
	cfg := GenConfig(r, "/srv/whawty/base")
	w := newWorld(r, rr, cfg, 1)
	users := w.populate(2 + r.Choose("nusers", 3))
	pa, errA := w.newDir("/etc/whawty/store0.yaml")
	pb, errB := w.newDir("/etc/whawty/store0.yaml")
	if errA != nil || errB != nil {
		r.Fail("harness/config", "%v %v", errA, errB)
	}
	type wop struct {
		kind, user, pw string
		old, aux       string
		had            bool
		err            error
	}
	mk := func(i int, d *Dir) *wop {
		o := &wop{}
		if r.Choose("tw-kind", 3) == 0 {
			o.kind, o.user = "add", []string{"newbie", "zed"}[i]
		} else {
			o.kind, o.user = "update", users[i%len(users)]
		}
		o.pw = fmt.Sprintf("two-writers-%d", i)
		if m := w.model[o.user]; m != nil {
			o.had, o.aux = true, m.Aux
			_, o.old, _ = w.userFile(o.user)
		}
		return o
	}
	a, b := mk(0, pa), mk(1, pb)
	switch r.Choose("tw-same-user", 3) {
	case 1:
		propC09SameUser(r, w, pa, pb, users[0], cfg)
		return
	case 2:
		propC09TwoRemovers(r, w, pa, pb, users[0], cfg)
		return
	}
	run := func(o *wop, d *Dir) {
		if o.kind == "add" {
			o.err = d.AddUser(o.user, o.pw, false)
		} else {
			o.err = d.UpdateUser(o.user, o.pw)
		}
	}
	f := w.fs
	_, switches := w.interleaveReader(f, func() { run(a, pa) }, func(*[]readerObs) { run(b, pb) })
	r.Add("probe:writer-writer-context-switches", switches)
	what := fmt.Sprintf("process-internal writers: %s(%s) -> %v || %s(%s) -> %v", a.kind, a.user, a.err, b.kind, b.user, b.err)
	r.Logf("%s", what)
	if a.err != nil || b.err != nil {
		r.Fail("race/independent-write-failed", "%s: writes to two different users must not disturb each other", what)
	}
	limit := 64
	if r.Tier == "thorough" {
		limit = 256
	}
	images := 0
	w.powerLossImages(f, limit, func(img *simfs.FS, desc string) {
		images++
		w.use(img)
		for _, o := range []*wop{a, b} {
			cls, content := w.classify(o.user, o.old, o.had, o.aux, o.pw)
			if cls != fcNew {
				r.Fail("durability/concurrent/"+o.kind+"/"+cls.String(), "%s; power loss after both returned success, image [%s]: file of %s is %s (%q)", what, desc, o.user, cls, truncate(content, 80))
			}
		}
		r.Count("fault:power-loss")
	})
	w.use(f)
	r.Add("evaluations", images)
	r.Steps += 2
	r.Count("probe:two-writer-durability-runs")
	r.Nontrivial(fmt.Sprintf("two-writers|%s|%s|%s|%d", cfg.Desc(), a.kind, b.kind, switches))
}

// propC09SameUser: two writers change the password of the same user. Whoever is acknowledged
// first is judged at that very moment, with the other writer still somewhere in its call: in
// every power-loss image the record is complete and carries one of the two new passwords (the
// other writer's rename may already have replaced this one's) - never the old record, an empty
// or cut one. A writer must not share scratch state with the writer next to it.
func propC09SameUser(r *Run, w *World, pa, pb *Dir, user string, cfg Config) {
	m := w.model[user]
	_, old, _ := w.userFile(user)
	pws := []string{"same-user-first", "same-user-second"}
	errs := make([]error, 2)
	snaps := make([]*simfs.FS, 2)
	f := w.fs
	_, switches := w.interleaveReader(f, func() {
		errs[0] = pa.UpdateUser(user, pws[0])
		snaps[0] = f.Clone()
	}, func(*[]readerObs) {
		errs[1] = pb.UpdateUser(user, pws[1])
		snaps[1] = f.Clone()
	})
	r.Add("probe:writer-writer-context-switches", switches)
	what := fmt.Sprintf("two writers on %s: update -> %v || update -> %v", user, errs[0], errs[1])
	r.Logf("%s", what)
	limit := 48
	if r.Tier == "thorough" {
		limit = 192
	}
	images := 0
	for i := range snaps {
		if snaps[i] == nil || errs[i] != nil {
			continue // not acknowledged: C15 judges failures
		}
		w.powerLossImages(snaps[i], limit, func(img *simfs.FS, desc string) {
			images++
			w.use(img)
			c0, content := w.classify(user, old, true, m.Aux, pws[0])
			c1, _ := w.classify(user, old, true, m.Aux, pws[1])
			if c0 != fcNew && c1 != fcNew {
				cls := c0
				if i == 1 {
					cls = c1
				}
				r.Fail("durability/same-user/"+cls.String(), "%s; power loss at the moment writer %d returned success, image [%s]: file of %s is %s (%q)", what, i, desc, user, cls, truncate(content, 80))
			}
			r.Count("fault:power-loss")
		})
	}
	w.use(f)
	r.Add("evaluations", images)
	r.Steps += 2
	r.Count("probe:two-writers-same-user-runs")
	r.Nontrivial(fmt.Sprintf("two-writers-same-user|%s|%d", cfg.Desc(), switches))
}

// propC09TwoRemovers: two processes remove the same user (the command line next to the running
// agent, or a retry that overtakes the first attempt). Remove reports nothing, so returning is the
// acknowledgement: at the moment either of them returns, the user's file is in no power-loss image -
// also for the one that found the file already unlinked by the other, whose own directory flush may
// still be to come.
func propC09TwoRemovers(r *Run, w *World, pa, pb *Dir, user string, cfg Config) {
	snaps := make([]*simfs.FS, 2)
	f := w.fs
	_, switches := w.interleaveReader(f, func() {
		pa.RemoveUser(user)
		snaps[0] = f.Clone()
	}, func(*[]readerObs) {
		pb.RemoveUser(user)
		snaps[1] = f.Clone()
	})
	r.Add("probe:writer-writer-context-switches", switches)
	limit := 48
	if r.Tier == "thorough" {
		limit = 192
	}
	images := 0
	for i := range snaps {
		if snaps[i] == nil {
			continue
		}
		w.powerLossImages(snaps[i], limit, func(img *simfs.FS, desc string) {
			images++
			for _, e := range []string{".user", ".admin"} {
				if _, ok := img.Get(cfg.BaseDir + "/" + user + e); ok {
					r.Fail("durability/remove/two-removers", "two removers of %s; power loss at the moment remover %d returned, image [%s]: %s%s is back", user, i, desc, user, e)
				}
			}
			r.Count("fault:power-loss")
		})
	}
	w.use(f)
	r.Add("evaluations", images)
	r.Steps += 2
	r.Count("probe:two-removers-same-user-runs")
	r.Nontrivial(fmt.Sprintf("two-removers|%s|%d", cfg.Desc(), switches))
}
