//go:build verif

package store

// C09 with two writers in one process (two requests handled by goroutines of one program that
// uses the library, or the agent and a maintenance job sharing code): each acknowledged change
// is durable on its own account - a writer must not rely on a directory flush that another
// writer started before this writer's rename.

import (
	"fmt"

	"github.com/whawty/auth/zzverif/simfs"
)

func propC09TwoWriters(r *Run, rr *randRecorder) {
	cfg := GenConfig(r, "/srv/whawty/base")
	w := newWorld(r, rr, cfg, 1)
	users := w.populate(2 + r.Choose("nusers", 3))
	pa, errA := w.newDir("/etc/whawty/store0.yaml")
	pb, errB := w.newDir("/etc/whawty/store0.yaml")
	if errA != nil || errB != nil {
		r.Fail("harness/config", "%v %v", errA, errB)
	}
	type wop struct {
		kind, user, pw string
		old, aux       string
		had            bool
		err            error
	}
	mk := func(i int, d *Dir) *wop {
		o := &wop{}
		if r.Choose("tw-kind", 3) == 0 {
			o.kind, o.user = "add", []string{"newbie", "zed"}[i]
		} else {
			o.kind, o.user = "update", users[i%len(users)]
		}
		o.pw = fmt.Sprintf("two-writers-%d", i)
		if m := w.model[o.user]; m != nil {
			o.had, o.aux = true, m.Aux
			_, o.old, _ = w.userFile(o.user)
		}
		return o
	}
	a, b := mk(0, pa), mk(1, pb)
	run := func(o *wop, d *Dir) {
		if o.kind == "add" {
			o.err = d.AddUser(o.user, o.pw, false)
		} else {
			o.err = d.UpdateUser(o.user, o.pw)
		}
	}
	f := w.fs
	_, switches := w.interleaveReader(f, func() { run(a, pa) }, func(*[]readerObs) { run(b, pb) })
	r.Add("probe:writer-writer-context-switches", switches)
	what := fmt.Sprintf("process-internal writers: %s(%s) -> %v || %s(%s) -> %v", a.kind, a.user, a.err, b.kind, b.user, b.err)
	r.Logf("%s", what)
	if a.err != nil || b.err != nil {
		r.Fail("race/independent-write-failed", "%s: writes to two different users must not disturb each other", what)
	}
	limit := 64
	if r.Tier == "thorough" {
		limit = 256
	}
	images := 0
	w.powerLossImages(f, limit, func(img *simfs.FS, desc string) {
		images++
		w.use(img)
		for _, o := range []*wop{a, b} {
			cls, content := w.classify(o.user, o.old, o.had, o.aux, o.pw)
			if cls != fcNew {
				r.Fail("durability/concurrent/"+o.kind+"/"+cls.String(), "%s; power loss after both returned success, image [%s]: file of %s is %s (%q)", what, desc, o.user, cls, truncate(content, 80))
			}
		}
		r.Count("fault:power-loss")
	})
	w.use(f)
	r.Add("evaluations", images)
	r.Steps += 2
	r.Count("probe:two-writer-durability-runs")
	r.Nontrivial(fmt.Sprintf("two-writers|%s|%s|%s|%d", cfg.Desc(), a.kind, b.kind, switches))
}
