//go:build verif

package store

// C01, two writer processes: the store is shared between the agent and the command-line
// tool (and between agents on a shared directory), and the O_EXCL reservation of the final
// name is what makes "add of an existing user fails" hold when two of them add the same
// user at the same time. Two store.Dir instances ("processes") run one operation each,
// interleaved at single file-system operations by the tape (same gate as the C08 reader
// clause). Only the pairs for which the code has a protocol are judged:
//
//   add(u,flag) || add(u,flag)   at most one is acknowledged; the acknowledged password
//                                authenticates afterwards, the refused one does not;
//   add(u) || add(v), u != v     both acknowledged, both authenticate (work-area names
//                                must not collide);
//   update(u) || update(u)       both acknowledged; the record is completely one of the two,
//                                with the auxiliary data intact.
//
// Pairs without a protocol in the code (add with different admin flags, update against
// remove) are not generated: the property speaks about sequences, and the agent serialises.

import (
	"fmt"

	"github.com/whawty/auth/zzverif/simrt"
)

func (w *World) raceClause(users []string) {
	r := w.r
	pa, errA := w.newDir("/etc/whawty/store0.yaml")
	pb, errB := w.newDir(fmt.Sprintf("/etc/whawty/store%d.yaml", len(w.dirs)-1))
	if errA != nil || errB != nil {
		r.Fail("harness/config", "%v %v", errA, errB)
	}
	var existing []string
	for _, u := range sortedKeys(w.model) {
		if w.model[u].Supported && validName(u) {
			existing = append(existing, u)
		}
	}
	fresh := func(skip string) string {
		for _, c := range []string{"racer", "racer2", "racer3"} {
			if _, ok := w.model[c]; !ok && c != skip {
				if _, _, on := w.userFile(c); !on {
					return c
				}
			}
		}
		return ""
	}
	// a third of the races are two goroutines of one program on the *same* store.Dir (a library
	// user with several request handlers): the instance's hashers are then shared, and their
	// statements are scheduling points as well
	sameInstance := r.Choose("race-same-instance", 3) == 0
	if sameInstance {
		pb = pa
		w.libYields = true
		defer func() { w.libYields = false }()
		r.Count("probe:two-callers-of-one-instance")
	}
	kind := r.Choose("race-kind", 4)
	if kind == 2 && len(existing) == 0 {
		kind = 0
	}
	if kind == 3 {
		// two logins at the same time: X with X's password, Y with X's password
		if len(existing) >= 2 {
			w.loginRace(pa, pb, existing)
		}
		return
	}
	pwA, pwB := GenPassword(r), GenPassword(r)
	var eA, eB error
	var uA, uB string
	admin := r.Choose("race-admin", 2) == 1
	switch kind {
	case 0:
		uA = fresh("")
		uB = uA
	case 1:
		uA = fresh("")
		uB = fresh(uA)
	case 2:
		uA = existing[r.Choose("race-user", len(existing))]
		uB = uA
	}
	if uA == "" || uB == "" {
		return
	}
	opA := func() {
		if kind == 2 {
			eA = pa.UpdateUser(uA, pwA)
		} else {
			eA = pa.AddUser(uA, pwA, admin)
		}
	}
	opB := func(*[]readerObs) {
		if kind == 2 {
			eB = pb.UpdateUser(uB, pwB)
		} else {
			eB = pb.AddUser(uB, pwB, admin)
		}
	}
	var oldAux string
	if kind == 2 {
		oldAux = w.model[uA].Aux
	}
	_, switches := w.interleaveReader(w.fs, opA, opB)
	r.Add("probe:writer-writer-context-switches", switches)
	r.Count("probe:two-writer-races")
	what := fmt.Sprintf("process A %s(%s,pw=%s) -> %v || process B %s(%s,pw=%s) -> %v (%d context switches)",
		[]string{"add", "add", "update"}[kind], simrt.Q(uA), simrt.Q(pwA), eA, []string{"add", "add", "update"}[kind], simrt.Q(uB), simrt.Q(pwB), eB, switches)
	r.Logf("race: %s", what)
	defA, defB := w.sets[w.cfgs[0].Default], w.sets[w.cfgs[len(w.dirs)-1].Default]
	if sameInstance {
		defB = defA
	}
	verifies := func(u, pw string) bool {
		_, content, ok := w.userFile(u)
		return ok && RefVerifyLenient(w.sets, content, pw)
	}
	sync := func(u string) { // bring the model in line with the outcome, whatever it is
		_, content, ok := w.userFile(u)
		if !ok {
			delete(w.model, u)
			return
		}
		line, rest := FirstLine(content)
		rec, err := ParseStrict(line)
		if err != nil {
			w.model[u] = &MUser{Supported: false, Raw: content}
			return
		}
		m := &MUser{Set: w.sets[uint(rec.ParamID)], Admin: admin, Stamp: rec.Stamp, Aux: rest, HasNL: true, Supported: true}
		if old := w.model[u]; old != nil {
			m.Admin = old.Admin
		}
		switch {
		case verifies(u, pwA):
			m.PW = pwA
		case verifies(u, pwB):
			m.PW = pwB
		default:
			if old := w.model[u]; old != nil {
				m.PW = old.PW
			}
		}
		w.model[u] = m
	}
	switch kind {
	case 0:
		if eA == nil && eB == nil {
			r.Fail("race/add-of-existing-acknowledged", "%s: two adds of the same user were both acknowledged", what)
		}
		if eA != nil && eB != nil {
			r.Fail("race/both-adds-refused", "%s: the user did not exist and no fault was injected, one add must win", what)
		}
		win, lose, wdef := pwA, pwB, defA
		if eA != nil {
			win, lose, wdef = pwB, pwA, defB
		}
		samePW := wdef.Canon(win) == wdef.Canon(lose)
		if !verifies(uA, win) {
			r.Fail("race/acknowledged-add-lost", "%s: the acknowledged add's password does not authenticate afterwards (file: %v)", what, func() string { p, c, _ := w.userFile(uA); return p + " " + simrt.Q(c) }())
		}
		if !samePW && verifies(uA, lose) {
			r.Fail("race/refused-add-took-effect", "%s: the refused add's password authenticates", what)
		}
	case 1:
		if eA != nil || eB != nil {
			r.Fail("race/independent-add-failed", "%s: adds of two different users must not disturb each other", what)
		}
		if !verifies(uA, pwA) || !verifies(uB, pwB) {
			r.Fail("race/acknowledged-add-lost", "%s: an acknowledged add's password does not authenticate afterwards", what)
		}
	case 2:
		if eA != nil || eB != nil {
			r.Fail("race/update-failed", "%s: an update of an existing user failed on a healthy store", what)
		}
		if !verifies(uA, pwA) && !verifies(uA, pwB) {
			r.Fail("race/record-is-neither", "%s: the record is neither of the two acknowledged updates", what)
		}
		if _, content, ok := w.userFile(uA); ok {
			if _, rest := FirstLine(content); rest != oldAux {
				r.FailOther("C15", "aux/changed", "%s: auxiliary data changed: %s -> %s", what, simrt.Q(oldAux), simrt.Q(rest))
			}
		}
	}
	sync(uA)
	sync(uB)
	for _, u := range []string{uA, uB} {
		n := 0
		for _, ext := range []string{".admin", ".user"} {
			if _, ok := w.fs.Get(w.base() + "/" + u + ext); ok {
				n++
			}
		}
		if n > 1 {
			r.FailOther("C16", "race/two-files-for-one-user", "%s: both %s.user and %s.admin exist", what, u, u)
		}
	}
	if tmp := w.tmpEntries(); len(tmp) > 0 {
		r.FailOther("C16", "tmp/residue", "%s: work area not empty after both operations completed: %v", what, tmp)
	}
	w.confinement()
}

// loginRace: two authentications overlap (two instances, or two goroutines on one instance):
// user X with X's password and user Y with X's password. The first succeeds, the second does
// not (unless the two passwords are the same key), whatever the interleaving.
func (w *World) loginRace(pa, pb *Dir, existing []string) {
	r := w.r
	x := existing[r.Choose("login-race-x", len(existing))]
	y := existing[r.Choose("login-race-y", len(existing))]
	if x == y {
		return
	}
	mx, my := w.model[x], w.model[y]
	if mx.Set.Canon(mx.PW) == mx.Set.Canon(my.PW) || my.Set.Canon(mx.PW) == my.Set.Canon(my.PW) {
		return
	}
	var okX, okY bool
	var eX, eY error
	_, switches := w.interleaveReader(w.fs, func() {
		okX, _, _, _, eX = pa.Authenticate(x, mx.PW)
	}, func(*[]readerObs) {
		okY, _, _, _, eY = pb.Authenticate(y, mx.PW)
	})
	r.Count("probe:two-login-races")
	what := fmt.Sprintf("login %s with its password -> %v (%v) || login %s with the password of %s -> %v (%v) (%d context switches)", simrt.Q(x), okX, eX, simrt.Q(y), simrt.Q(x), okY, eY, switches)
	r.Logf("race: %s", what)
	if !okX {
		r.Fail("race/concurrent-login-refused", "%s: the right password was refused", what)
	}
	if okY {
		r.Fail("race/concurrent-login-wrong-password-accepted", "%s: a password that is not the account's was accepted", what)
	}
	w.confinement()
}
