//go:build verif

package store

import (
	"encoding/base64"
	"fmt"
	"strings"
	"time"

	"github.com/whawty/auth/zzverif/simrt"
)

func init() { register("C02", propC02) }

type corrCat int

const (
	catEither      corrCat = iota // the statement does not fix list/add/update behaviour; only "success => reference agrees"
	catInvalid                    // definitely not a supported record: schema rules for unsupported hashes apply
	catWrongDigest                // well-formed, but the right password must no longer authenticate
	catValid                      // still a valid record of the same password
)

func (c corrCat) String() string {
	return [...]string{"either", "invalid", "wrong-digest", "valid"}[c]
}

type corruption struct {
	name string
	f    func(w *World, u string, m *MUser, rec RefRecord, content string, r *Run) (string, corrCat)
}

func otherAlgoSet(w *World, algo string) (PSet, bool) {
	for _, s := range w.cfg.Sets {
		if s.Algo != algo {
			return s, true
		}
	}
	return PSet{}, false
}

func unknownID(w *World) uint {
	for id := uint(5); ; id++ {
		if _, ok := w.sets[id]; !ok {
			return id
		}
	}
}

func recLine(algo string, stamp, id, salt, dig string) string {
	return algo + ":" + stamp + ":" + id + ":" + salt + ":" + dig
}

var corruptions = []corruption{
	{"empty-file", func(w *World, u string, m *MUser, rec RefRecord, c string, r *Run) (string, corrCat) { return "", catInvalid }},
	{"only-newline", func(w *World, u string, m *MUser, rec RefRecord, c string, r *Run) (string, corrCat) { return "\n" + m.Aux, catInvalid }},
	{"drop-separator", func(w *World, u string, m *MUser, rec RefRecord, c string, r *Run) (string, corrCat) {
		line, rest := FirstLine(c)
		f := strings.SplitN(line, ":", 4)
		k := r.Choose("which-sep", 3)
		line = strings.Join(f[:k+1], ":") + strings.Join(f[k+1:], ":")[0:0] + strings.Join(f[k+1:], ":")
		// remove exactly one of the first three separators
		parts := strings.SplitN(FirstLineOnly(c), ":", 4)
		line = ""
		for i, p := range parts {
			line += p
			if i < len(parts)-1 && i != k {
				line += ":"
			}
		}
		// with one of the first three separators gone the hash part moves left: 4 fields remain only
		// because the hash part itself has a ':'; the numeric fields no longer parse or the hash has one part
		return line + "\n" + rest, catEither
	}},
	{"three-fields", func(w *World, u string, m *MUser, rec RefRecord, c string, r *Run) (string, corrCat) {
		return rec.Algo + ":" + fmt.Sprint(rec.Stamp) + ":" + fmt.Sprint(rec.ParamID) + "\n" + m.Aux, catInvalid
	}},
	{"unknown-param-id", func(w *World, u string, m *MUser, rec RefRecord, c string, r *Run) (string, corrCat) {
		return recLine(rec.Algo, fmt.Sprint(rec.Stamp), fmt.Sprint(unknownID(w)), rec.SaltB64, rec.DigB64) + "\n" + m.Aux, catInvalid
	}},
	{"param-id-zero", func(w *World, u string, m *MUser, rec RefRecord, c string, r *Run) (string, corrCat) {
		return recLine(rec.Algo, fmt.Sprint(rec.Stamp), "0", rec.SaltB64, rec.DigB64) + "\n" + m.Aux, catInvalid
	}},
	{"param-id-overflow", func(w *World, u string, m *MUser, rec RefRecord, c string, r *Run) (string, corrCat) {
		return recLine(rec.Algo, fmt.Sprint(rec.Stamp), "18446744073709551616", rec.SaltB64, rec.DigB64) + "\n" + m.Aux, catInvalid
	}},
	{"param-id-garbage", func(w *World, u string, m *MUser, rec RefRecord, c string, r *Run) (string, corrCat) {
		g := []string{"", "x", "1x", "-1", " 1", "1 ", "0x1", "١"}[r.Choose("idg", 8)]
		return recLine(rec.Algo, fmt.Sprint(rec.Stamp), g, rec.SaltB64, rec.DigB64) + "\n" + m.Aux, catInvalid
	}},
	{"param-id-lenient-forms", func(w *World, u string, m *MUser, rec RefRecord, c string, r *Run) (string, corrCat) {
		g := []string{"+", "0", "00"}[r.Choose("idl", 3)] + fmt.Sprint(rec.ParamID)
		return recLine(rec.Algo, fmt.Sprint(rec.Stamp), g, rec.SaltB64, rec.DigB64) + "\n" + m.Aux, catEither
	}},
	{"param-id-of-other-algorithm", func(w *World, u string, m *MUser, rec RefRecord, c string, r *Run) (string, corrCat) {
		o, ok := otherAlgoSet(w, rec.Algo)
		if !ok {
			return c, catValid
		}
		return recLine(rec.Algo, fmt.Sprint(rec.Stamp), fmt.Sprint(o.ID), rec.SaltB64, rec.DigB64) + "\n" + m.Aux, catInvalid
	}},
	{"other-configured-set-same-algorithm", func(w *World, u string, m *MUser, rec RefRecord, c string, r *Run) (string, corrCat) {
		for _, s := range w.cfg.Sets {
			if s.Algo == rec.Algo && uint64(s.ID) != rec.ParamID && s.Desc()[strings.Index(s.Desc(), ":"):] != m.Set.Desc()[strings.Index(m.Set.Desc(), ":"):] {
				return recLine(rec.Algo, fmt.Sprint(rec.Stamp), fmt.Sprint(s.ID), rec.SaltB64, rec.DigB64) + "\n" + m.Aux, catEither
			}
		}
		return c, catValid
	}},
	{"other-algorithm-name", func(w *World, u string, m *MUser, rec RefRecord, c string, r *Run) (string, corrCat) {
		a := []string{"", "bcrypt", "ARGON2ID", "argon2i", "hmac_sha256_scrypt ", "argon2id\x00", "scrypt"}[r.Choose("algo-name", 7)]
		return recLine(a, fmt.Sprint(rec.Stamp), fmt.Sprint(rec.ParamID), rec.SaltB64, rec.DigB64) + "\n" + m.Aux, catInvalid
	}},
	{"swapped-algorithm-name", func(w *World, u string, m *MUser, rec RefRecord, c string, r *Run) (string, corrCat) {
		a := algoScrypt
		if rec.Algo == algoScrypt {
			a = algoArgon
		}
		return recLine(a, fmt.Sprint(rec.Stamp), fmt.Sprint(rec.ParamID), rec.SaltB64, rec.DigB64) + "\n" + m.Aux, catInvalid
	}},
	{"stamp-garbage", func(w *World, u string, m *MUser, rec RefRecord, c string, r *Run) (string, corrCat) {
		g := []string{"", "abc", "12.5", "1e9", " 5"}[r.Choose("stampg", 5)]
		return recLine(rec.Algo, g, fmt.Sprint(rec.ParamID), rec.SaltB64, rec.DigB64) + "\n" + m.Aux, catInvalid
	}},
	{"stamp-edge", func(w *World, u string, m *MUser, rec RefRecord, c string, r *Run) (string, corrCat) {
		g := []string{"0", "-1", "9223372036854775807", "9223372036854775808", "-9223372036854775808", "+5", "007"}[r.Choose("stampe", 7)]
		return recLine(rec.Algo, g, fmt.Sprint(rec.ParamID), rec.SaltB64, rec.DigB64) + "\n" + m.Aux, catEither
	}},
	{"empty-salt", func(w *World, u string, m *MUser, rec RefRecord, c string, r *Run) (string, corrCat) {
		return recLine(rec.Algo, fmt.Sprint(rec.Stamp), fmt.Sprint(rec.ParamID), "", rec.DigB64) + "\n" + m.Aux, catInvalid
	}},
	{"empty-digest", func(w *World, u string, m *MUser, rec RefRecord, c string, r *Run) (string, corrCat) {
		return recLine(rec.Algo, fmt.Sprint(rec.Stamp), fmt.Sprint(rec.ParamID), rec.SaltB64, "") + "\n" + m.Aux, catInvalid
	}},
	{"swap-salt-digest", func(w *World, u string, m *MUser, rec RefRecord, c string, r *Run) (string, corrCat) {
		return recLine(rec.Algo, fmt.Sprint(rec.Stamp), fmt.Sprint(rec.ParamID), rec.DigB64, rec.SaltB64) + "\n" + m.Aux, catWrongDigest
	}},
	{"extra-hash-field", func(w *World, u string, m *MUser, rec RefRecord, c string, r *Run) (string, corrCat) {
		return recLine(rec.Algo, fmt.Sprint(rec.Stamp), fmt.Sprint(rec.ParamID), rec.SaltB64, rec.DigB64+":"+rec.DigB64) + "\n" + m.Aux, catInvalid
	}},
	{"not-base64", func(w *World, u string, m *MUser, rec RefRecord, c string, r *Run) (string, corrCat) {
		bad := []string{"*", "!!!!", "a", "ab=c", "===="}[r.Choose("nb64", 5)]
		if r.Choose("nb64-where", 2) == 0 {
			return recLine(rec.Algo, fmt.Sprint(rec.Stamp), fmt.Sprint(rec.ParamID), bad, rec.DigB64) + "\n" + m.Aux, catInvalid
		}
		return recLine(rec.Algo, fmt.Sprint(rec.Stamp), fmt.Sprint(rec.ParamID), rec.SaltB64, bad) + "\n" + m.Aux, catInvalid
	}},
	{"std-base64", func(w *World, u string, m *MUser, rec RefRecord, c string, r *Run) (string, corrCat) {
		return recLine(rec.Algo, fmt.Sprint(rec.Stamp), fmt.Sprint(rec.ParamID), base64.StdEncoding.EncodeToString(rec.Salt), base64.StdEncoding.EncodeToString(rec.Digest)) + "\n" + m.Aux, catEither
	}},
	{"unpadded-base64", func(w *World, u string, m *MUser, rec RefRecord, c string, r *Run) (string, corrCat) {
		return recLine(rec.Algo, fmt.Sprint(rec.Stamp), fmt.Sprint(rec.ParamID), base64.RawURLEncoding.EncodeToString(rec.Salt), base64.RawURLEncoding.EncodeToString(rec.Digest)) + "\n" + m.Aux, catEither
	}},
	{"digest-bit-flip", func(w *World, u string, m *MUser, rec RefRecord, c string, r *Run) (string, corrCat) {
		d := append([]byte(nil), rec.Digest...)
		d[r.Choose("byte", len(d))] ^= 1 << r.Choose("bit", 8)
		return recLine(rec.Algo, fmt.Sprint(rec.Stamp), fmt.Sprint(rec.ParamID), rec.SaltB64, base64.URLEncoding.EncodeToString(d)) + "\n" + m.Aux, catWrongDigest
	}},
	{"salt-bit-flip", func(w *World, u string, m *MUser, rec RefRecord, c string, r *Run) (string, corrCat) {
		d := append([]byte(nil), rec.Salt...)
		d[r.Choose("byte", len(d))] ^= 1 << r.Choose("bit", 8)
		return recLine(rec.Algo, fmt.Sprint(rec.Stamp), fmt.Sprint(rec.ParamID), base64.URLEncoding.EncodeToString(d), rec.DigB64) + "\n" + m.Aux, catWrongDigest
	}},
	{"digest-prefix", func(w *World, u string, m *MUser, rec RefRecord, c string, r *Run) (string, corrCat) {
		d := rec.Digest[:1+r.Choose("keep", len(rec.Digest)-1)]
		return recLine(rec.Algo, fmt.Sprint(rec.Stamp), fmt.Sprint(rec.ParamID), rec.SaltB64, base64.URLEncoding.EncodeToString(d)) + "\n" + m.Aux, catWrongDigest
	}},
	{"digest-extended", func(w *World, u string, m *MUser, rec RefRecord, c string, r *Run) (string, corrCat) {
		d := append(append([]byte(nil), rec.Digest...), 0)
		return recLine(rec.Algo, fmt.Sprint(rec.Stamp), fmt.Sprint(rec.ParamID), rec.SaltB64, base64.URLEncoding.EncodeToString(d)) + "\n" + m.Aux, catWrongDigest
	}},
	{"truncate-file", func(w *World, u string, m *MUser, rec RefRecord, c string, r *Run) (string, corrCat) {
		line, _ := FirstLine(c)
		return c[:r.Choose("cut", len(line))], catEither
	}},
	{"char-insert", func(w *World, u string, m *MUser, rec RefRecord, c string, r *Run) (string, corrCat) {
		line, rest := FirstLine(c)
		ch := []string{"\r", "\x00", ":", " ", "\n", "\t"}[r.Choose("ch", 6)]
		p := r.Choose("pos", len(line)+1)
		return line[:p] + ch + line[p:] + "\n" + rest, catEither
	}},
	{"crlf", func(w *World, u string, m *MUser, rec RefRecord, c string, r *Run) (string, corrCat) {
		line, rest := FirstLine(c)
		return line + "\r\n" + rest, catEither
	}},
	{"no-final-newline", func(w *World, u string, m *MUser, rec RefRecord, c string, r *Run) (string, corrCat) {
		line, _ := FirstLine(c)
		return line, catEither
	}},
	{"random-bit-flip-in-text", func(w *World, u string, m *MUser, rec RefRecord, c string, r *Run) (string, corrCat) {
		line, rest := FirstLine(c)
		b := []byte(line)
		b[r.Choose("pos", len(b))] ^= 1 << r.Choose("bit", 8)
		return string(b) + "\n" + rest, catEither
	}},
	{"huge-line", func(w *World, u string, m *MUser, rec RefRecord, c string, r *Run) (string, corrCat) {
		line, rest := FirstLine(c)
		big := strings.Repeat("A", 3<<20)
		switch r.Choose("huge-where", 3) {
		case 0:
			return big + line + "\n" + rest, catInvalid
		case 1:
			return line + big + "\n" + rest, catEither
		}
		return recLine(rec.Algo, fmt.Sprint(rec.Stamp), fmt.Sprint(rec.ParamID), big, rec.DigB64) + "\n" + rest, catEither
	}},
	{"random-bytes", func(w *World, u string, m *MUser, rec RefRecord, c string, r *Run) (string, corrCat) {
		n := 1 + r.Choose("n", 200)
		b := make([]byte, n)
		for i := range b {
			b[i] = byte(r.Choose("b", 256))
		}
		return string(b), catEither
	}},
	{"append-aux", func(w *World, u string, m *MUser, rec RefRecord, c string, r *Run) (string, corrCat) {
		line, rest := FirstLine(c)
		return line + "\n" + rest + "totp: ZXh0cmE=\n", catValid
	}},
	{"foreign-rewrite", func(w *World, u string, m *MUser, rec RefRecord, c string, r *Run) (string, corrCat) {
		// an independent agent rewrites the record for another password under any configured set
		us := usableSets(w)
		set := us[r.Choose("fset", len(us))]
		salt := make([]byte, set.SaltLen())
		for i := range salt {
			salt[i] = byte(r.Choose("saltb", 256))
		}
		m.PW = GenPassword(r)
		m.Set = set
		m.Stamp = time.Now().Unix()
		return RefWrite(set, m.PW, salt, m.Stamp) + "\n" + m.Aux, catValid
	}},
	{"record-of-unusable-set", func(w *World, u string, m *MUser, rec RefRecord, c string, r *Run) (string, corrCat) {
		for _, s := range w.cfg.Sets {
			if s.Algo == algoScrypt && s.Cost == 0 {
				dig := []string{"", rec.DigB64, "AAAA"}[r.Choose("unusable-digest", 3)]
				return recLine(s.Algo, fmt.Sprint(rec.Stamp), fmt.Sprint(s.ID), rec.SaltB64, dig) + "\n" + m.Aux, catEither
			}
		}
		return c, catValid
	}},
	{"buffer-boundary-record", func(w *World, u string, m *MUser, rec RefRecord, c string, r *Run) (string, corrCat) {
		// a foreign agent writes a correct argon2id record whose first line ends exactly at a
		// common buffer size (the schema bounds neither salt nor line length), is a little
		// longer, or ends there with extra digest characters behind it (not a matching digest)
		var sets []PSet
		for _, s := range w.cfg.Sets {
			if s.Algo != algoScrypt {
				sets = append(sets, s)
			}
		}
		if len(sets) == 0 {
			return c, catValid
		}
		set := sets[r.Choose("bset", len(sets))]
		size := []int{4096, 65536}[r.Choose("bsize", 2)]
		variant := r.Choose("bvariant", 3)
		pw := GenPassword(r)
		dlen := 4 * ((int(set.Length) + 2) / 3)
		idlen := len(fmt.Sprint(set.ID))
		for sd := 7; sd <= 11; sd++ {
			rem := size - (len("argon2id:") + sd + 1 + idlen + 1 + 1 + dlen)
			if variant == 2 {
				rem += 4 * (1 + r.Choose("bextra", 40))
			}
			if rem < 4 || rem%4 != 0 {
				continue
			}
			salt := make([]byte, rem/4*3)
			for i := range salt {
				salt[i] = byte(i*7 + len(pw))
			}
			stamp := int64(1)
			for i := 1; i < sd; i++ {
				stamp *= 10
			}
			stamp += int64(r.Choose("bstamp", 1000))
			line := RefWrite(set, pw, salt, stamp)
			if variant != 2 && len(line) != size {
				r.Fail("harness/boundary-record", "built %d bytes, wanted %d", len(line), size)
			}
			m.PW, m.Set, m.Stamp = pw, set, stamp
			if variant == 1 {
				return line + "QUJD" + "\n" + m.Aux, catEither
			}
			return line + "\n" + m.Aux, catValid
		}
		return c, catValid
	}},
}

// FirstLineOnly returns the first line without the newline.
func FirstLineOnly(c string) string { l, _ := FirstLine(c); return l }

func propC02(r *Run) {
	inBubble(r, func(rr *randRecorder) {
		cfg := GenConfig(r, "/srv/whawty/base")
		if r.Choose("with-unusable-set", 4) == 0 {
			// a parameter set the loader accepts but whose key derivation always fails (scrypt with
			// cost 0, i.e. N = 1): nothing can verify under it - certainly not an empty digest
			id := uint(770077)
			for _, s := range cfg.Sets {
				if s.ID == id {
					id++
				}
			}
			cfg.Sets = append(cfg.Sets, PSet{ID: id, Algo: algoScrypt, Key: keyN(0), Cost: 0})
		}
		w := newWorld(r, rr, cfg, 1)
		users := w.populate(2 + r.Choose("nusers", 3))
		d := w.dirs[0]
		// foreign valid records authenticate
		for _, u := range users {
			w.checkAuth("C02", 0, u, w.model[u].PW)
		}
		n := 2 + r.Choose("ncorr", 6)
		var applied []string
		for i := 0; i < n; i++ {
			u := users[r.Choose("victim", len(users))]
			m := w.model[u]
			path, content, ok := w.userFile(u)
			if !ok || !m.Supported {
				continue
			}
			rec, err := ParseStrict(FirstLineOnly(content))
			if err != nil {
				r.Fail("harness/ref-record-unparsable", "%v", err)
			}
			cor := corruptions[r.Choose("corruption", len(corruptions))]
			nc, cat := cor.f(w, u, m, rec, content, r)
			w.fs.Put(path, []byte(nc), 0o600)
			w.arm()
			r.Logf("#%d corrupt %s with %s (%s): %s", i, path, cor.name, cat, simrt.Q(nc))
			applied = append(applied, cor.name)
			r.Count("fault:corrupt-" + cat.String())
			r.Nontrivial(cor.name + "|" + fmt.Sprint(len(nc)) + "|" + m.Set.Desc() + "|" + fmt.Sprint(r.T.Pos()))
			// one-directional oracle for several passwords
			for _, pw := range []string{m.PW, "other", "", m.PW + "x"} {
				var okA bool
				var errA error
				w.guard("authenticate", func() { okA, _, _, _, errA = d.Authenticate(u, pw) })
				if okA && !RefVerifyLenient(w.sets, nc, pw) {
					r.Fail("tamper/accepted/"+cor.name, "after %s, Authenticate(%s,%s) succeeded (err=%v) although the file is not a record of a configured set whose digest matches: %s", cor.name, u, simrt.Q(pw), errA, simrt.Q(nc))
				}
				if okA && errA != nil {
					r.Fail("tamper/ok-with-error", "ok together with error %v", errA)
				}
				if pw == m.PW {
					if cat == catValid && !okA {
						r.Fail("tamper/valid-rejected/"+cor.name, "after %s the record is still a valid record of %s but authentication failed: %v; file %s", cor.name, simrt.Q(pw), errA, simrt.Q(nc))
					}
					if (cat == catWrongDigest || cat == catInvalid) && okA {
						r.Fail("tamper/accepted/"+cor.name, "after %s the right password still authenticates; file %s", cor.name, simrt.Q(nc))
					}
				}
			}
			if cat == catInvalid {
				m.Supported = false
				m.Raw = nc
				var lst UserList
				var lerr error
				w.guard("list", func() { lst, lerr = d.List() })
				if _, shown := lst[u]; shown || lerr != nil {
					r.Fail("unsupported/listed/"+cor.name, "after %s user %s must be hidden from list (err=%v)", cor.name, u, lerr)
				}
				var fl UserListFull
				var ferr error
				w.guard("list-full", func() { fl, ferr = d.ListFull() })
				if e, shown := fl[u]; !shown || e.IsSupported || ferr != nil {
					r.Fail("unsupported/list-full/"+cor.name, "after %s list-full must show %s as unsupported: shown=%v entry=%+v err=%v", cor.name, u, shown, e, ferr)
				}
				var aerr, uerr error
				w.guard("add", func() { aerr = d.AddUser(u, "newpw", false) })
				if aerr == nil {
					r.Fail("unsupported/add-succeeded/"+cor.name, "add of %s must report 'exists' while an unsupported file is there", u)
				}
				w.guard("update", func() { uerr = d.UpdateUser(u, "newpw") })
				if uerr == nil {
					r.Fail("unsupported/update-succeeded/"+cor.name, "update of %s must refuse to overwrite an unsupported hash", u)
				}
				if _, c2, _ := w.userFile(u); c2 != nc {
					r.Fail("unsupported/file-changed/"+cor.name, "refused add/update changed the unsupported file of %s", u)
				}
				if tmp := w.tmpEntries(); len(tmp) > 0 {
					r.FailOther("C16", "tmp/residue", "work area not empty after refused operation: %v", tmp)
				}
				if r.Choose("remove-unsupported", 2) == 1 {
					w.guard("remove", func() { d.RemoveUser(u) })
					if _, _, still := w.userFile(u); still {
						r.Fail("unsupported/remove-kept/"+cor.name, "remove must delete the unsupported file of %s", u)
					}
					delete(w.model, u)
					users = removeStr(users, u)
					if len(users) == 0 {
						break
					}
				}
			} else if cat == catValid {
				_, c2, _ := w.userFile(u)
				_, m.Aux = FirstLine(c2)
			} else {
				// unknown status: keep it out of the model-based checks
				m.Supported = false
				m.Raw = nc
				// whatever it is, list / list-full / check must not crash
				w.guard("list", func() { d.List() })         //nolint
				w.guard("list-full", func() { d.ListFull() }) //nolint
				w.guard("check", func() { d.Check() })       //nolint
				users = removeStr(users, u)
				if len(users) == 0 {
					break
				}
			}
			w.confinement()
			// untouched users still authenticate
			for _, ou := range users {
				if om := w.model[ou]; om != nil && om.Supported {
					w.checkAuth("C02", 0, ou, om.PW)
				}
			}
		}
		// overlapping logins through one instance (two request handlers of a program that uses the
		// library): each verdict is the one the reference gives for that file and that password,
		// whatever the other call is doing with the instance's hashers at the same time
		if r.Choose("overlapping-logins", 3) == 0 {
			var files []string
			for _, u := range sortedKeys(w.model) {
				if _, _, ok := w.userFile(u); ok && validName(u) {
					files = append(files, u)
				}
			}
			if len(files) >= 2 {
				x, y := files[r.Choose("overlap-x", len(files))], files[r.Choose("overlap-y", len(files))]
				if x != y && w.model[x] != nil && w.model[y] != nil {
					_, cx, _ := w.userFile(x)
					_, cy, _ := w.userFile(y)
					pwx, pwy := w.model[x].PW, w.model[x].PW // y is tried with x's password
					if r.Choose("overlap-y-own-password", 3) == 0 {
						pwy = w.model[y].PW
					}
					var okX, okY bool
					d := w.dirs[0]
					w.libYields = true
					_, sw := w.interleaveReader(w.fs, func() {
						defer func() { recover() }() //nolint: a crash is C02's business elsewhere
						okX, _, _, _, _ = d.Authenticate(x, pwx)
					}, func(*[]readerObs) {
						defer func() { recover() }() //nolint
						okY, _, _, _, _ = d.Authenticate(y, pwy)
					})
					w.libYields = false
					r.Count("probe:overlapping-logins")
					r.Logf("overlapping logins: %s -> %v || %s -> %v (%d context switches)", simrt.Q(x), okX, simrt.Q(y), okY, sw)
					if okX && !RefVerifyLenient(w.sets, cx, pwx) {
						r.Fail("tamper/accepted/overlapping-logins", "login of %s succeeded while another login was in progress on the same instance, although its file %s does not verify password %s", simrt.Q(x), simrt.Q(truncate(cx, 80)), simrt.Q(pwx))
					}
					if okY && !RefVerifyLenient(w.sets, cy, pwy) {
						r.Fail("tamper/accepted/overlapping-logins", "login of %s succeeded while another login was in progress on the same instance, although its file %s does not verify password %s", simrt.Q(y), simrt.Q(truncate(cy, 80)), simrt.Q(pwy))
					}
				}
			}
		}
		r.Steps += n
		r.Sample(map[string]any{"config": cfg.Desc(), "corruptions": applied})
	})
}

func removeStr(s []string, x string) []string {
	var out []string
	for _, v := range s {
		if v != x {
			out = append(out, v)
		}
	}
	return out
}

// usableSets: the configured sets whose key derivation works (C02 may add one that never does).
func usableSets(w *World) []PSet {
	var out []PSet
	for _, s := range w.cfg.Sets {
		if !(s.Algo == algoScrypt && s.Cost == 0) {
			out = append(out, s)
		}
	}
	return out
}
