//go:build verif

package store

import (
	"fmt"
	"strings"
	"time"

	"github.com/whawty/auth/zzverif/simfs"

	"github.com/whawty/auth/zzverif/simrt"
)

func init() { register("C01", propC01) }

var clockSteps = []time.Duration{0, 300 * time.Millisecond, time.Second, 5 * time.Second, 24 * time.Hour, 999 * time.Millisecond}

// modelApply helpers -------------------------------------------------------------

func (w *World) mAdd(u, pw string, admin bool, inst int) bool {
	if !validName(u) {
		return false
	}
	if _, ok := w.model[u]; ok {
		return false
	}
	set := w.sets[w.cfgs[inst].Default]
	w.model[u] = &MUser{PW: pw, Set: set, Admin: admin, Stamp: time.Now().Unix(), HasNL: true, Supported: true}
	return true
}

func (w *World) mUpdate(u, pw string, inst int) bool {
	m, ok := w.model[u]
	if !ok || !m.Supported {
		return false
	}
	m.PW, m.Set, m.Stamp = pw, w.sets[w.cfgs[inst].Default], time.Now().Unix()
	m.HasNL = true
	return true
}

// checkAuth compares one Authenticate call with the model.
func (w *World) checkAuth(prop string, inst int, u, pw string) {
	r := w.r
	var ok, isAdmin, upg bool
	var lc time.Time
	var err error
	w.guard("authenticate", func() { ok, isAdmin, upg, lc, err = w.dirs[inst].Authenticate(u, pw) })
	r.Count("authenticate")
	m, exists := w.model[u]
	want := exists && m.Supported && m.Set.Canon(pw) == m.Set.Canon(m.PW)
	if ok != want {
		r.Fail("verdict/authenticate", "Authenticate(%s, %s) = %v (err=%v), model says %v (user exists=%v, stored password %s under set %s)",
			simrt.Q(u), simrt.Q(pw), ok, err, want, exists, func() string {
				if exists {
					return simrt.Q(m.PW)
				}
				return "-"
			}(), func() string {
				if exists {
					return m.Set.Desc()
				}
				return "-"
			}())
	}
	if ok {
		if err != nil {
			r.Fail("verdict/ok-with-error", "Authenticate(%s) returned ok together with error %v", simrt.Q(u), err)
		}
		if isAdmin != m.Admin {
			r.Fail("verdict/admin-flag", "Authenticate(%s) reports admin=%v, record is admin=%v", simrt.Q(u), isAdmin, m.Admin)
		}
		if lc.Unix() != m.Stamp {
			r.Fail("verdict/last-changed", "Authenticate(%s) reports last change %d, last successful write was at %d", simrt.Q(u), lc.Unix(), m.Stamp)
		}
		wantUpg := m.Set.ID != w.cfgs[inst].Default
		if upg != wantUpg {
			r.FailOther("C12", "upgradeable/flag", "Authenticate(%s) reports upgradeable=%v, record set %d, default %d", simrt.Q(u), upg, m.Set.ID, w.cfgs[inst].Default)
		}
	}
}

func (w *World) checkListExists(inst int) {
	r := w.r
	var lst UserList
	var err error
	w.guard("list", func() { lst, err = w.dirs[inst].List() })
	if err != nil {
		r.Fail("list/error", "List failed on a healthy store: %v", err)
	}
	wantN := 0
	for _, u := range sortedKeys(w.model) {
		m := w.model[u]
		if !m.Supported || !validName(u) {
			continue
		}
		wantN++
		e, ok := lst[u]
		if !ok {
			r.Fail("list/missing", "List omits existing user %s", simrt.Q(u))
		}
		if e.IsAdmin != m.Admin || e.LastChanged.Unix() != m.Stamp {
			r.Fail("list/fields", "List shows %s as admin=%v changed=%d, model admin=%v changed=%d", simrt.Q(u), e.IsAdmin, e.LastChanged.Unix(), m.Admin, m.Stamp)
		}
	}
	if len(lst) != wantN {
		r.Fail("list/extra", "List returns %d users, model has %d: %v", len(lst), wantN, sortedKeys(lst))
	}
	for _, u := range namePool {
		var ex, adm bool
		w.guard("exists", func() { ex, adm, err = w.dirs[inst].Exists(u) })
		m, ok := w.model[u]
		if err != nil || ex != ok || (ok && adm != m.Admin) {
			r.Fail("exists/mismatch", "Exists(%s) = (%v,%v,%v), model exists=%v", simrt.Q(u), ex, adm, err, ok)
		}
	}
}

// nearMissSweep: after a write, nothing but the written password (modulo the scheme's own
// key equivalence) authenticates; the equivalent forms do.
func (w *World) nearMissSweep(inst int, u string) {
	m := w.model[u]
	if m == nil || !m.Supported {
		return
	}
	misses := NearMisses(m.PW, false)
	// other users' passwords
	for _, ou := range sortedKeys(w.model) {
		if ou != u {
			misses = append(misses, w.model[ou].PW)
		}
	}
	for _, p := range misses {
		w.checkAuth("C01", inst, u, p)
		w.r.Count("near-miss")
	}
	w.checkAuth("C01", inst, u, m.PW)
}

func propC01(r *Run) {
	inBubble(r, func(rr *randRecorder) {
		cfg := GenConfig(r, "/srv/whawty/base")
		ninst := 1 + r.Choose("ninst", 2)
		w := newWorld(r, rr, cfg, ninst)
		nops := 5 + r.Choose("nops", 36)
		if r.Tier == "thorough" {
			nops += r.Choose("nops2", 40)
		}
		nusers := 1 + r.Choose("nusers", 4)
		users := make([]string, nusers)
		for i := range users {
			users[i] = namePool[r.Choose("name", len(namePool))]
		}
		hist := []string{}
		writes := 0
		faultRun := r.Choose("fault-class", 4) == 0 // fault-free and fault-injecting runs are separate classes
		for i := 0; i < nops; i++ {
			if d := clockSteps[r.Choose("clock", len(clockSteps))]; d > 0 {
				time.Sleep(d)
			}
			inst := r.Choose("inst", ninst)
			u := users[r.Choose("user", nusers)]
			if r.Chance("badname", 1, 12) {
				u = []string{"-bad", "", "has space", "a/b", ".hidden"}[r.Choose("badname-pick", 5)]
			}
			d := w.dirs[inst]
			op := r.Choose("op", 8)
			// fault-injecting class (decided per run): a single I/O error somewhere before the
			// rename/unlink that installs the change; a call that then reports failure must have
			// left the verdicts exactly as they were ("successful and failed ... operations")
			faulty := faultRun && op <= 5 && r.Choose("inject-fault", 3) == 0
			if faulty {
				k := w.fs.NOps + r.Choose("fault-at", 16)
				pick := r.Choose("fault-errno", 4)
				installed := false
				w.fs.Plan = func(seq int, kind, real string) *simfs.Fault {
					if installed {
						return nil
					}
					if seq >= k {
						kk := kind
						if kk == "open" && strings.Contains(real, "/.tmp/") {
							kk = "create"
						}
						if e := errnosFor[kk]; len(e) > 0 {
							installed = true // one fault only
							r.Count("fault:" + e[pick%len(e)].Error())
							return &simfs.Fault{Errno: e[pick%len(e)]}
						}
					}
					if kind == "rename" || kind == "remove" {
						installed = true // the change is being installed: no fault from here on
					}
					return nil
				}
			}
			var err error
			switch op {
			case 0, 1: // add
				pw, admin := GenPassword(r), r.Choose("admin", 2) == 1
				w.guard("add", func() { err = d.AddUser(u, pw, admin) })
				w.fs.Plan = nil
				want := false
				if !(faulty && err != nil) {
					want = w.mAdd(u, pw, admin, inst)
				} else if validName(u) && w.model[u] == nil {
					r.Count("probe:failed-add-under-fault")
				}
				r.Logf("#%d t=%d inst%d add %s pw=%s admin=%v -> %v", i, time.Now().Unix(), inst, simrt.Q(u), simrt.Q(pw), admin, err)
				if (err == nil) != want && !faulty {
					r.Fail("result/add", "AddUser(%s) err=%v, model expects success=%v", simrt.Q(u), err, want)
				}
				if want {
					writes++
					w.checkWritten(inst, u)
					w.nearMissSweep(inst, u)
				}
				hist = append(hist, fmt.Sprintf("add(%s)=%v", simrt.Q(u), err == nil))
			case 2, 3: // update
				pw := GenPassword(r)
				w.guard("update", func() { err = d.UpdateUser(u, pw) })
				w.fs.Plan = nil
				want := false
				if !(faulty && err != nil) {
					want = w.mUpdate(u, pw, inst)
				} else {
					r.Count("probe:failed-update-under-fault")
				}
				r.Logf("#%d t=%d inst%d update %s pw=%s -> %v", i, time.Now().Unix(), inst, simrt.Q(u), simrt.Q(pw), err)
				if (err == nil) != want && !faulty {
					r.Fail("result/update", "UpdateUser(%s) err=%v, model expects success=%v", simrt.Q(u), err, want)
				}
				if want {
					writes++
					w.checkWritten(inst, u)
					w.nearMissSweep(inst, u)
				}
				hist = append(hist, fmt.Sprintf("update(%s)=%v", simrt.Q(u), err == nil))
			case 4: // set-admin
				a := r.Choose("admin", 2) == 1
				w.guard("set-admin", func() { err = d.SetAdmin(u, a) })
				w.fs.Plan = nil
				m, ok := w.model[u]
				if faulty && err != nil {
					hist = append(hist, fmt.Sprintf("set-admin(%s,%v)=fault", simrt.Q(u), a))
					break
				}
				r.Logf("#%d inst%d set-admin %s %v -> %v", i, inst, simrt.Q(u), a, err)
				if (err == nil) != ok {
					r.Fail("result/set-admin", "SetAdmin(%s,%v) err=%v, model user exists=%v", simrt.Q(u), a, err, ok)
				}
				if ok {
					m.Admin = a
				}
				hist = append(hist, fmt.Sprintf("set-admin(%s,%v)=%v", simrt.Q(u), a, err == nil))
			case 5: // remove
				w.guard("remove", func() { d.RemoveUser(u) })
				w.fs.Plan = nil
				r.Logf("#%d inst%d remove %s", i, inst, simrt.Q(u))
				if _, _, still := w.userFile(u); !(faulty && still) {
					delete(w.model, u) // remove reports nothing; under an injected fault it may be ineffective
				}
				hist = append(hist, fmt.Sprintf("remove(%s)", simrt.Q(u)))
			case 6: // authenticate with a pool password
				pw := GenPassword(r)
				if m := w.model[u]; m != nil && r.Choose("rightpw", 2) == 1 {
					pw = m.PW
				}
				r.Logf("#%d inst%d authenticate %s pw=%s", i, inst, simrt.Q(u), simrt.Q(pw))
				w.checkAuth("C01", inst, u, pw)
			case 7:
				r.Logf("#%d inst%d list/exists", i, inst)
				w.checkListExists(inst)
			}
			w.confinement()
			// cross-check: every user of the model authenticates with its password via a random instance
			if op <= 5 {
				for _, mu := range sortedKeys(w.model) {
					w.checkAuth("C01", r.Choose("inst", ninst), mu, w.model[mu].PW)
				}
				w.checkListExists(inst)
				if tmp := w.tmpEntries(); len(tmp) > 0 {
					r.FailOther("C16", "tmp/residue", "work area not empty after completed operation: %v", tmp)
				}
			}
		}
		if !faultRun && r.Choose("two-writer-race", 3) == 0 {
			w.raceClause(users)
			for _, mu := range sortedKeys(w.model) {
				if w.model[mu].Supported {
					w.checkAuth("C01", r.Choose("inst", ninst), mu, w.model[mu].PW)
				}
			}
			w.checkListExists(0)
		}
		r.Steps += nops
		if writes >= 2 {
			r.Nontrivial(fmt.Sprintf("%s|%v", cfg.Desc(), hist))
		}
		r.Sample(map[string]any{"config": cfg.Desc(), "history": hist})
	})
}
