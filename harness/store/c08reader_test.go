//go:build verif

package store

// C08, last sentence: "Concurrent readers in other processes see the same three
// possibilities." A reader process (its own store.Dir) runs authenticate / list / exists
// calls while a writer performs add / update / init; the two are interleaved at the
// granularity of single file-system operations by the tape (simfs.Gate parks each of them
// before every operation; exactly one runs at a time).

import (
	"bytes"
	"fmt"
	"runtime"
	"strconv"
	"strings"
	"testing/synctest"

	"github.com/whawty/auth/zzverif/simfs"
	"github.com/whawty/auth/zzverif/simrt"
)

func curGoid() int64 {
	var buf [64]byte
	b := buf[:runtime.Stack(buf[:], false)]
	b = bytes.TrimPrefix(b, []byte("goroutine "))
	n, _ := strconv.ParseInt(string(b[:bytes.IndexByte(b, ' ')]), 10, 64)
	return n
}

type readerObs struct {
	call string
	ok   bool
	err  string
	has  bool // list / exists: the user is there
}

// interleaveReader runs writer and reader under a tape-chosen interleaving; returns what the
// reader observed, in order.
func (w *World) interleaveReader(f *simfs.FS, writer func(), reader func(obs *[]readerObs)) ([]readerObs, int) {
	r := w.r
	type proc struct {
		turn chan struct{}
		done bool
		id   int64
	}
	procs := []*proc{{turn: make(chan struct{})}, {turn: make(chan struct{})}}
	arrived := make(chan int, 2)
	byGoid := map[int64]int{}
	var obs []readerObs
	f.Gate = func() {
		if i, ok := byGoid[curGoid()]; ok {
			arrived <- i
			<-procs[i].turn
		}
	}
	if w.libYields {
		// two callers of the same store.Dir: the statements of the shared hashers are scheduling
		// points too (simgen inserts simrt.LibYield there)
		simrt.LibHook = func(string) { f.Gate() }
		defer func() { simrt.LibHook = nil }()
	}
	start := func(i int, body func()) {
		ready := make(chan struct{})
		go func() {
			procs[i].id = curGoid()
			close(ready)
			<-procs[i].turn
			defer func() {
				recover() //nolint: a crash signal or a panic ends this "process"; the controller judges the observations
				procs[i].done = true
				arrived <- i
			}()
			body()
		}()
		<-ready
		byGoid[procs[i].id] = i
	}
	start(0, writer)
	start(1, func() { reader(&obs) })
	switches := 0
	last := -1
	// a process normally stops only at the gate; one that blocks somewhere else (a lock or a
	// channel of the code under test) simply does not arrive, and the others go on
	pending := []bool{false, false}
	for {
		synctest.Wait()
		for more := true; more; {
			select {
			case k := <-arrived:
				pending[k] = false
			default:
				more = false
			}
		}
		var cand []int
		waiting := 0
		for i, p := range procs {
			if p.done {
				continue
			}
			if pending[i] {
				waiting++
			} else {
				cand = append(cand, i)
			}
		}
		if len(cand) == 0 {
			if waiting > 0 {
				r.Fail("race/processes-block-each-other", "two store operations in one process block each other for good (neither reaches its next file-system operation)")
			}
			break
		}
		i := cand[r.Choose("who-runs", len(cand))]
		if i != last {
			switches++
			last = i
		}
		pending[i] = true
		procs[i].turn <- struct{}{}
	}
	f.Gate = nil
	return obs, switches
}

// readerClause is called by propC08 for its scenario.
func (w *World) readerClause(sc *scenario, hadOld bool, oldPW string) {
	r := w.r
	op := sc.op
	nsched := 2 + r.Choose("reader-schedules", 3)
	for k := 0; k < nsched; k++ {
		f := sc.pre.Clone()
		f.KeepLog = false
		w.use(f)
		rd, err := w.newDir("/etc/whawty/store0.yaml") // the reader process opens the store itself
		if err != nil {
			r.Fail("harness/config", "%v", err)
		}
		reader := func(obs *[]readerObs) {
			for n := 0; n < 6; n++ {
				switch r.Choose("reader-call", 4) {
				case 0:
					ok, _, _, _, e := rd.Authenticate(op.User, op.PW)
					*obs = append(*obs, readerObs{call: "auth-new", ok: ok, err: fmt.Sprint(e)})
				case 1:
					if !hadOld {
						continue // nothing "old" to try for a user that is being created
					}
					ok, _, _, _, e := rd.Authenticate(op.User, oldPW)
					*obs = append(*obs, readerObs{call: "auth-old", ok: ok, err: fmt.Sprint(e)})
				case 2:
					l, e := rd.List()
					_, has := l[op.User]
					*obs = append(*obs, readerObs{call: "list", ok: e == nil, err: fmt.Sprint(e), has: has})
				case 3:
					ex, _, e := rd.Exists(op.User)
					*obs = append(*obs, readerObs{call: "exists", ok: e == nil, err: fmt.Sprint(e), has: ex})
				}
			}
		}
		obs, switches := w.interleaveReader(f, func() { w.runOp(op) }, reader)
		r.Add("probe:reader-writer-context-switches", switches)
		def := w.sets[w.cfgs[0].Default]
		samePW := hadOld && w.model[op.User] != nil && w.model[op.User].Set.Canon(oldPW) == def.Canon(op.PW) && w.model[op.User].Set.Algo == def.Algo
		newSeen := false
		for i, o := range obs {
			what := fmt.Sprintf("reader call #%d %s during %s (schedule %d): ok=%v has=%v err=%s", i, o.call, op, k, o.ok, o.has, o.err)
			transient := strings.Contains(o.err, "does not exist") || strings.Contains(o.err, "hash file is invalid")
			switch o.call {
			case "auth-new":
				if o.ok {
					newSeen = true
				} else if newSeen && !samePW {
					r.Fail("reader/new-record-vanished", "%s: the new password worked for this reader before and no longer does", what)
				}
				if !o.ok && hadOld && transient {
					r.Fail("reader/saw-partial-state", "%s: a reader of an existing user must see the complete old or the complete new record", what)
				}
			case "auth-old":
				if hadOld {
					if !o.ok && transient {
						r.Fail("reader/saw-partial-state", "%s: a reader of an existing user must see the complete old or the complete new record", what)
					}
					if o.ok && newSeen && !samePW && def.Canon(oldPW) != def.Canon(op.PW) {
						r.Fail("reader/old-after-new", "%s: the old password authenticates after this reader already saw the new record", what)
					}
				} else if o.ok {
					r.Fail("reader/ghost-login", "%s: a password authenticates for a user that is only being created", what)
				}
			case "list", "exists":
				if !o.ok {
					r.Fail("reader/call-failed", "%s: a read-only call of another process failed while the store was being written", what)
				}
				if hadOld && !o.has {
					r.Fail("reader/user-vanished", "%s: an existing user is invisible to a concurrent reader while being updated", what)
				}
			}
		}
		r.Count("reader-interleavings")
	}
	_ = simrt.Q
}
