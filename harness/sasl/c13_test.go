//go:build verif

package sasl

import (
	"errors"
	"bytes"
	"fmt"
	"io"
	"strings"

	"github.com/whawty/auth/zzverif/simrt"
)

func init() { register("C13", propC13) }

// schedReader feeds data to the decoder under a read schedule chosen by the tape:
// fragment sizes, zero-length reads (in runs shorter than bufio's no-progress limit),
// data returned together with io.EOF.
type schedReader struct {
	data   []byte
	pos    int
	r      *Run
	mode   int // 0 all at once, 1 one byte at a time, 2 random fragments
	zeros  int
	eofTog bool // deliver the final fragment together with io.EOF
	Reads  int
	sched  []int
}

func (s *schedReader) Read(p []byte) (int, error) {
	s.Reads++
	if s.pos >= len(s.data) {
		return 0, io.EOF
	}
	if len(p) == 0 {
		return 0, nil
	}
	n := len(s.data) - s.pos
	switch s.mode {
	case 1:
		n = 1
	case 2:
		if s.zeros < 60 && s.r.Choose("zero-read", 4) == 0 {
			s.zeros++
			s.sched = append(s.sched, 0)
			return 0, nil
		}
		s.zeros = 0
		max := n
		if max > 9 {
			max = 9
		}
		n = 1 + s.r.Choose("frag", max)
		if s.r.Choose("frag-rest", 6) == 0 {
			n = len(s.data) - s.pos
		}
	}
	if n > len(p) {
		n = len(p)
	}
	copy(p, s.data[s.pos:s.pos+n])
	s.pos += n
	s.sched = append(s.sched, n)
	if s.pos == len(s.data) && s.eofTog {
		return n, io.EOF
	}
	return n, nil
}

var lenPool = []int{0, 1, 2, 7, 255, 256, 257, 300, 65535}

func genRequestBytes(r *Run) ([]byte, string) {
	switch r.Choose("input-kind", 5) {
	case 0, 1: // structured: lengths at the limits, arbitrary contents
		var f [4]string
		desc := "fields"
		for i := range f {
			n := lenPool[r.Choose("flen", len(lenPool))]
			f[i] = seededBytes(uint64(r.Choose("fseed", 1000)+i*7919), n)
			desc += fmt.Sprintf(" %d", n)
		}
		b := RefEncodeRequest(f)
		if r.Choose("trailing", 3) == 0 {
			b = append(b, seededBytes(99, 1+r.Choose("ntrail", 20))...)
			desc += " +trailing"
		}
		return b, desc
	case 2: // every truncation of a valid message
		f := [4]string{"login", "password", "svc", "realm"}
		if r.Choose("empty-tail", 2) == 0 {
			f[2], f[3] = "", ""
		}
		b := RefEncodeRequest(f)
		cut := r.Choose("cut", len(b)+1)
		return b[:cut], fmt.Sprintf("valid cut at %d/%d", cut, len(b))
	case 3: // arbitrary bytes
		n := r.Choose("rawlen", 40)
		b := make([]byte, n)
		for i := range b {
			switch r.Choose("rawkind", 3) {
			case 0:
				b[i] = 0
			case 1:
				b[i] = byte(r.Choose("small", 4))
			default:
				b[i] = byte(r.Choose("byte", 256))
			}
		}
		return b, fmt.Sprintf("raw %x", b)
	default: // a valid message with one length byte altered
		f := [4]string{"u", "p", "s", "r"}
		b := RefEncodeRequest(f)
		i := r.Choose("mutpos", len(b))
		b[i] = byte(r.Choose("mutval", 256))
		return b, fmt.Sprintf("mutated %x", b)
	}
}

func propC13(r *Run) {
	b, desc := genRequestBytes(r)
	wantF, consumed, wantErr := RefDecodeRequest(b)
	r.Logf("request input: %s (%d bytes) -> reference: err=%v", desc, len(b), wantErr)
	// all-at-once baseline and several fragmentations
	nsched := 3 + r.Choose("nsched", 4)
	for k := 0; k < nsched; k++ {
		sr := &schedReader{data: b, r: r}
		switch {
		case k == 0:
			sr.mode = 0
		case k == 1:
			sr.mode = 1
		default:
			sr.mode = 2
		}
		sr.eofTog = r.Choose("eof-with-data", 2) == 1
		var req Request
		var err error
		func() {
			defer func() {
				if x := recover(); x != nil {
					r.Fail("decode/panic", "Request.Decode panicked on %s under read schedule %v: %v", desc, sr.sched, x)
				}
			}()
			err = req.Decode(sr)
		}()
		r.Logf("  schedule mode=%d eof-with-data=%v reads=%v -> err=%v", sr.mode, sr.eofTog, sr.sched, err)
		r.Count("fault:fragmented-read")
		if (err == nil) != (wantErr == nil) {
			r.Fail("decode/verdict", "input %s: Decode err=%v under read schedule %v (mode %d, eof-with-data=%v), reference decoder says err=%v", desc, err, sr.sched, sr.mode, sr.eofTog, wantErr)
		}
		if err == nil {
			got := [4]string{req.Login, req.Password, req.Service, req.Realm}
			if got != wantF {
				r.Fail("decode/fields", "input %s: decoded %q, reference %q (schedule %v)", desc, got, wantF, sr.sched)
			}
			out, merr := req.Marshal()
			if merr != nil || !bytes.Equal(out, b[:consumed]) {
				r.Fail("decode/re-encode", "input %s: re-encoding the decoded request gives %x (err=%v), consumed bytes were %x", desc, out, merr, b[:consumed])
			}
		}
	}
	r.Nontrivial(desc)

	// encoder: exact format, limits, round trip
	var f [4]string
	over := false
	for i := range f {
		n := lenPool[r.Choose("elen", len(lenPool))]
		if n > 256 {
			over = true
		}
		f[i] = seededBytes(uint64(r.Choose("eseed", 1000)+i*31), n)
		if n > 0 && r.Choose("field-ends-in-nul", 6) == 0 {
			// bytes a C client might think of as terminators are data here
			k := 1 + r.Choose("nul-count", min(n, 3))
			f[i] = f[i][:n-k] + strings.Repeat("\x00", k)
		}
	}
	// an earlier Encode whose writer failed half-way (the peer hung up) must leave nothing
	// behind that shows up in later messages
	if r.Choose("failed-write-before", 3) == 0 {
		fw := &failingWriter{okBytes: r.Choose("failed-write-after", 6)}
		if r.Choose("failed-write-kind", 2) == 0 {
			(&Response{Result: true, Message: "welcome stale-user"}).Encode(fw) //nolint
		} else {
			(&Request{"stale-user", "stale-password", "svc", "realm"}).Encode(fw) //nolint
		}
		r.Count("fault:writer-fails-mid-message")
	}
	req := Request{f[0], f[1], f[2], f[3]}
	var buf bytes.Buffer
	eerr := req.Encode(&buf)
	mb, merr := req.Marshal()
	if over {
		if eerr == nil || merr == nil {
			r.Fail("encode/over-limit-accepted", "Encode/Marshal accepted field lengths %d/%d/%d/%d", len(f[0]), len(f[1]), len(f[2]), len(f[3]))
		}
	} else {
		want := RefEncodeRequest(f)
		if eerr != nil || merr != nil || !bytes.Equal(buf.Bytes(), want) || !bytes.Equal(mb, want) {
			r.Fail("encode/format", "Encode of lengths %d/%d/%d/%d gives %x (err=%v/%v), wire format says %x", len(f[0]), len(f[1]), len(f[2]), len(f[3]), buf.Bytes(), eerr, merr, want)
		}
		var back Request
		derr := back.Decode(&schedReader{data: want, r: r, mode: 2})
		if f[0] == "" || f[1] == "" {
			if derr == nil {
				r.Fail("decode/empty-accepted", "decoder accepted an empty login or password")
			}
		} else if derr != nil || back != req {
			r.Fail("roundtrip/request", "decode(encode(x)) != x for lengths %d/%d/%d/%d: err=%v", len(f[0]), len(f[1]), len(f[2]), len(f[3]), derr)
		}
		// the byte-slice entry points are the same codec
		var ub Request
		uerr := ub.Unmarshal(want)
		if (uerr == nil) != (derr == nil) || (uerr == nil && ub != back) {
			r.Fail("roundtrip/request-unmarshal", "Unmarshal and Decode disagree on %d bytes: %v / %v", len(want), uerr, derr)
		}
	}
	r.Nontrivial(fmt.Sprintf("enc %d %d %d %d", len(f[0]), len(f[1]), len(f[2]), len(f[3])))

	// responses
	mlen := []int{0, 1, 2, 252, 253, 254, 300, 65531, 65532, 65533, 65534, 65535, 65536, 70000}[r.Choose("mlen", 14)]
	msg := seededBytes(uint64(r.Choose("mseed", 1000)), mlen)
	if r.Choose("msg-leading-space", 4) == 0 && mlen > 0 {
		msg = " " + msg[1:]
	}
	resp := Response{Result: r.Choose("result", 2) == 1, Message: msg}
	var rb bytes.Buffer
	rerr := resp.Encode(&rb)
	want := RefEncodeResponse(resp.Result, msg)
	if 3+len(msg) > 65535 {
		// the text does not fit a 16-bit length: the encoder must refuse and write nothing
		if rerr == nil || rb.Len() > 0 {
			r.Fail("encode/response-overflow", "Response with a %d-byte message: Encode returned err=%v and wrote %d bytes (length prefix %x); a part longer than 65535 bytes cannot be framed", len(msg), rerr, rb.Len(), rb.Bytes()[:min(2, rb.Len())])
		}
	} else if rerr != nil || !bytes.Equal(rb.Bytes(), want) {
		r.Fail("encode/response-format", "Response{%v,%d bytes}.Encode gives %x (err=%v), wire format says %x", resp.Result, len(msg), rb.Bytes(), rerr, want)
	}
	if mb, merr := resp.Marshal(); (merr == nil) != (rerr == nil) || (merr == nil && !bytes.Equal(mb, rb.Bytes())) {
		r.Fail("encode/response-marshal", "Response{%v,%d bytes}: Marshal gives %d bytes (err=%v), Encode %d bytes (err=%v)", resp.Result, len(msg), len(mb), merr, rb.Len(), rerr)
	}
	if 3+len(msg) <= 256 || msg == "" {
		var back Response
		derr := back.Decode(&schedReader{data: want, r: r, mode: 2, eofTog: r.Choose("eof-with-data", 2) == 1})
		if derr != nil || back.Result != resp.Result || back.Message != msg {
			r.Fail("roundtrip/response", "decode(encode(Response{%v,%s})) = {%v,%s} err=%v", resp.Result, simrt.Q(msg), back.Result, simrt.Q(back.Message), derr)
		}
	}
	// arbitrary response bytes: the decoder must agree with the grammar where it is unambiguous
	raw := append([]byte(nil), want...)
	if r.Choose("resp-mutate", 2) == 1 {
		i := r.Choose("rmutpos", len(raw))
		raw[i] = byte(r.Choose("rmutval", 256))
	}
	if r.Choose("resp-cut", 3) == 0 {
		raw = raw[:r.Choose("rcut", len(raw)+1)]
	}
	wok, wmsg, lenient, werr := RefDecodeResponse(raw)
	{
		var a, b Response
		ea := a.Unmarshal(raw)
		eb := b.Decode(bytes.NewReader(raw))
		if (ea == nil) != (eb == nil) || a != b {
			r.Fail("decode/response-unmarshal", "Unmarshal and Decode disagree on %x: {%v,%s} err=%v / {%v,%s} err=%v", raw, a.Result, simrt.Q(a.Message), ea, b.Result, simrt.Q(b.Message), eb)
		}
	}
	var base *Response
	for k := 0; k < 3; k++ {
		var got Response
		sr := &schedReader{data: raw, r: r, mode: k, eofTog: k == 2}
		gerr := got.Decode(sr)
		if base == nil {
			g := got
			base = &g
			if !lenient {
				if (gerr == nil) != (werr == nil) {
					r.Fail("decode/response-verdict", "response bytes %x: Decode err=%v, grammar says err=%v", raw, gerr, werr)
				}
				if gerr == nil && (got.Result != wok || got.Message != wmsg) {
					r.Fail("decode/response-fields", "response bytes %x: decoded {%v,%s}, grammar {%v,%s}", raw, got.Result, simrt.Q(got.Message), wok, simrt.Q(wmsg))
				}
			}
			if gerr == nil && got.Result && (werr != nil || !wok) {
				r.Fail("decode/response-false-ok", "response bytes %x decoded as OK", raw)
			}
			base.Message = fmt.Sprint(gerr == nil) + got.Message
			continue
		}
		if fmt.Sprint(gerr == nil)+got.Message != base.Message || (gerr == nil && got.Result != base.Result) {
			r.Fail("decode/response-fragmentation", "response bytes %x decode differently under read schedule %v", raw, sr.sched)
		}
	}
	// the PAM module's encoder writes the same bytes as the Go encoder for the same fields
	if r.Choose("pam-clause", 8) == 0 {
		var cases []string
		var wants [][]byte
		for k := 0; k < 6; k++ {
			ul, pl := lenPool[r.Choose("pam-ulen", 8)], lenPool[r.Choose("pam-plen", 8)]
			mk := func(n int, tag uint64) string { // C strings: no NUL bytes
				b := []byte(seededBytes(tag, n))
				for i := range b {
					if b[i] == 0 {
						b[i] = 0x80
					}
				}
				return string(b)
			}
			u, p := mk(ul, uint64(k+1)), mk(pl, uint64(k+100))
			cu, cp := u, p
			if len(cu) > 256 {
				cu = cu[:256]
			}
			if len(cp) > 256 {
				cp = cp[:256]
			}
			want, err := (&Request{cu, cp, "", ""}).Marshal()
			if err != nil {
				r.Fail("encode/format", "Marshal of clipped fields failed: %v", err)
			}
			// the socket may take only part of each write: the bytes that arrive are the same
			chunk := []int{0, 0, 1, 2, 3, 7, 100, 255}[r.Choose("pam-socket-takes", 8)]
			if chunk > 0 {
				r.Count("fault:short-write")
			}
			cases = append(cases, fmt.Sprintf("E %s %s %d", hexs([]byte(u)), hexs([]byte(p)), chunk))
			wants = append(wants, want)
		}
		ans, err := pamBatch(cases)
		if err != nil {
			r.Fail("harness/pamsim", "%v", err)
		}
		if ans == nil {
			r.Count("pam-clause-skipped")
		}
		for i, a := range ans {
			f := strings.Fields(a)
			got := ""
			if len(f) > 1 {
				got = f[1]
			}
			if got != hexs(wants[i]) {
				r.Fail("encode/pam-differs", "PAM module writes %s, Go encoder %s for case %s", got, hexs(wants[i]), cases[i])
			}
			r.Count("requests-compared-with-pam-module")
		}
	}
	r.Steps += nsched + 5
	r.Sample(map[string]any{"request_input": desc, "schedules": nsched, "encoder_lengths": []int{len(f[0]), len(f[1]), len(f[2]), len(f[3])}, "response_msg_len": len(msg)})
}

// failingWriter accepts okBytes bytes and then fails every write (EPIPE-like).
type failingWriter struct{ okBytes int }

func (w *failingWriter) Write(p []byte) (int, error) {
	if w.okBytes >= len(p) {
		w.okBytes -= len(p)
		return len(p), nil
	}
	n := w.okBytes
	w.okBytes = 0
	return n, errors.New("write: broken pipe")
}
