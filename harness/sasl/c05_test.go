//go:build verif

package sasl

import (
	"context"
	"errors"
	"fmt"
	"io/fs"
	"os"
	"strings"
	"syscall"
	"testing/synctest"
	"time"

	"github.com/whawty/auth/zzverif/simnet"
	"github.com/whawty/auth/zzverif/simrt"
)

func init() { register("C05", propC05) }

type connPlan struct {
	stream  []byte
	desc    string
	cbOK    bool
	cbMsg   string
	cbErr   error
	pair    *simnet.Pair
	sent    int  // bytes delivered to the server so far
	fin     bool // client closed and EOF delivered
	reset   bool
	gone    bool
	cbDelay time.Duration // the callback takes this long (a slow password store)
	cbStart time.Time
	calls   [][4]string
	dialled bool
}

func propC05(r *Run) {
	inBubble(r, func(rr *randRecorder) {
		nw := simnet.New()
		simnet.Cur = nw
		nconn := 1 + r.Choose("nconn", 6)
		nbase := nconn
		stopDen, maxSteps := 40, 400
		if r.Choose("crowd", 8) == 0 {
			// many peers at once, most of them slow: nothing the server does for one connection
			// may depend on how many others are open
			nconn += 6 + r.Choose("crowd-extra", 10)
			stopDen = 400
			if r.Choose("big-crowd", 6) == 0 {
				nconn += 60 + r.Choose("big-crowd-extra", 30) // more than any plausible fixed-size pool
				stopDen, maxSteps = 4000, 2500
				r.Count("probe:runs-with-more-than-64-connections")
			}
			r.Count("probe:runs-with-more-than-7-connections")
		}
		plans := make([]*connPlan, nconn)
		cur := -1
		cb := func(login, password, service, realm string) (bool, string, error) {
			if cur == -2 {
				// a handler released from a yield point: attribute the call to the connection whose
				// delivered bytes decode to these fields
				for i, q := range plans {
					if q.dialled {
						if f, _, e := RefDecodeRequest(q.stream[:q.sent]); e == nil && f == [4]string{login, password, service, realm} && len(q.calls) == 0 {
							cur = i
							break
						}
					}
				}
			}
			if cur < 0 {
				return false, "", errors.New("harness: callback outside a delivery step")
			}
			p := plans[cur]
			p.calls = append(p.calls, [4]string{login, password, service, realm})
			if p.cbDelay > 0 {
				p.cbStart = time.Now()
				time.Sleep(p.cbDelay) // fake clock: the handler is busy for that long
			}
			return p.cbOK, p.cbMsg, p.cbErr
		}
		sched := simrt.NewSched()
		simrt.S = sched
		defer func() { simrt.S = nil }()
		if r.Choose("net-yields", 4) == 0 {
			// every read and write of a connection handler is a scheduling point: another handler
			// may run between the moment a reply has been built and the moment it is written
			nw.Gate = func() { simrt.Yield("net") }
			r.Count("probe:runs-with-network-operation-yields")
		}
		srv, err := NewServer("/run/whawty/auth.sock", cb)
		if err != nil {
			r.Fail("harness/listen", "%v", err)
		}
		go func() {
			sched.Register("accept-loop") // goroutines it starts from function literals become scheduling points
			srv.Run()                     //nolint
		}()
		synctest.Wait()

		msgLens := []int{0, 5, 26, 252, 253, 254, 300, 65532, 65533, 70000}
		seenReq := map[[4]string]bool{}
		for i := range plans {
			p := &connPlan{}
			kind := r.Choose("stream-kind", 3)
			if i >= nbase {
				kind = 3 // crowd: a peer that sends part of a request and then just stays connected
			}
			switch kind {
			case 3:
				full := RefEncodeRequest([4]string{fmt.Sprintf("slow%d", i), fmt.Sprintf("pass%d", i), "svc", "r"})
				p.stream = full[:1+r.Choose("staller-cut", len(full)-1)]
				p.desc = fmt.Sprintf("slow peer: %d of %d request bytes, then silence", len(p.stream), len(full))
			case 0: // a well-formed request with distinctive credentials
				f := [4]string{fmt.Sprintf("user%d", i), fmt.Sprintf("pass%d", i), "svc", ""}
				if i > 0 && r.Choose("same-bytes-other-boundaries", 4) == 0 {
					// the same bytes as the previous connection's request, cut into fields differently
					// ("al"+"icecream" / "alice"+"cream"): a different request, its own verdict
					if pf, _, perr := RefDecodeRequest(plans[i-1].stream); perr == nil && len(pf[1]) > 1 {
						k := 1 + r.Choose("boundary-shift", len(pf[1])-1)
						f = [4]string{pf[0] + pf[1][:k], pf[1][k:], pf[2], pf[3]}
						r.Count("probe:requests-with-shifted-field-boundaries")
					}
				}
				if r.Choose("limit-fields", 3) == 0 {
					f[0] = seededBytes(uint64(i+1), 256)
					f[1] = seededBytes(uint64(i+77), 256)
				}
				p.stream = RefEncodeRequest(f)
				p.desc = fmt.Sprintf("valid request (%d bytes)", len(p.stream))
				if r.Choose("trailing", 4) == 0 {
					p.stream = append(p.stream, seededBytes(5, 1+r.Choose("ntrail", 30))...)
					p.desc += " + trailing bytes"
				}
			default:
				p.stream, p.desc = genRequestBytes(r)
			}
			// the callback is attributed to a connection by the credentials it is called with:
			// no two connections of a run carry the same decodable request
			if f, _, derr := RefDecodeRequest(p.stream); derr == nil {
				if seenReq[f] {
					f = [4]string{fmt.Sprintf("user%d", i), fmt.Sprintf("pass%d", i), "svc", "again"}
					p.stream = RefEncodeRequest(f)
					p.desc = fmt.Sprintf("valid request (%d bytes)", len(p.stream))
				}
				seenReq[f] = true
			}
			p.cbOK = r.Choose("cb-ok", 2) == 1
			p.cbMsg = seededBytes(uint64(r.Choose("cb-msg-seed", 50)), msgLens[r.Choose("cb-msg-len", len(msgLens))])
			if r.Choose("cb-err", 4) == 0 {
				p.cbErr = errors.New(seededBytes(3, msgLens[r.Choose("cb-err-len", len(msgLens))]))
				// errors as a password store on a real system produces them: they carry Temporary() /
				// Timeout() and wrap errno values; whatever the error says about itself, the
				// connection's request is put to the callback once and the reply is negative
				switch r.Choose("cb-err-class", 6) {
				case 1:
					p.cbErr = &fs.PathError{Op: "open", Path: "/var/lib/whawty/auth/store/user.user", Err: syscall.EMFILE}
				case 2:
					p.cbErr = fmt.Errorf("store: %w", syscall.EAGAIN)
				case 3:
					p.cbErr = &simnet.OpError{Op: "read", Net: "unix", Err: os.ErrDeadlineExceeded}
				case 4:
					p.cbErr = fmt.Errorf("store: %w", syscall.EINTR)
				case 5:
					p.cbErr = context.DeadlineExceeded
				}
			}
			p.cbDelay = []time.Duration{0, 0, 0, 2 * time.Second, 6 * time.Second, 70 * time.Second}[r.Choose("cb-delay", 6)]
			plans[i] = p
			r.Logf("conn%d plan: %s; callback ok=%v msg=%dB err=%v", i, p.desc, p.cbOK, len(p.cbMsg), p.cbErr != nil)
		}

		var pamCases []string
		var pamWant []bool
		check := func(i int, final bool) {
			p := plans[i]
			if !p.dialled {
				return
			}
			delivered := p.stream[:p.sent]
			wantF, _, derr := RefDecodeRequest(delivered)
			if len(p.calls) > 1 {
				r.Fail("callback/more-than-once", "conn%d: callback invoked %d times", i, len(p.calls))
			}
			if len(p.calls) == 1 {
				if derr != nil {
					r.Fail("callback/on-undecodable", "conn%d: callback invoked although the bytes delivered so far (%x) do not decode: %v", i, delivered, derr)
				}
				if p.calls[0] != wantF {
					r.Fail("callback/wrong-fields", "conn%d: callback got %q, the connection's bytes decode to %q", i, p.calls[0], wantF)
				}
			}
			out := p.pair.ServerOutput()
			closed := p.pair.ServerClosed()
			complete := derr != errRefShort // the bytes delivered so far decide the request (valid, over-limit or empty field)
			ended := p.fin
			if p.reset {
				return // the transport is gone; nothing is owed beyond the callback rules above
			}
			if len(p.calls) == 1 && p.cbDelay > 0 && time.Since(p.cbStart) < p.cbDelay {
				return // the callback is still working on this connection's request
			}
			if !final && len(sched.Runnable()) > 0 {
				return // a handler goroutine has not been given its turn yet: nothing can be demanded of it
			}
			if (complete || ended) && !closed {
				r.Fail("reply/not-closed", "conn%d: stream complete=%v ended=%v but the server has not closed the connection (output %d bytes)", i, complete, ended, len(out))
			}
			if !(complete || ended) {
				if len(out) > 0 || closed {
					r.Fail("reply/before-request-complete", "conn%d: server replied/closed after %d of %d bytes although the request is merely incomplete", i, p.sent, len(p.stream))
				}
				return
			}
			if !closed {
				return
			}
			if p.gone && len(out) == 0 {
				return // the client closed its end completely before the reply could be written
			}
			// exactly one well-formed length-prefixed message
			if len(out) < 2 {
				r.Fail("reply/missing", "conn%d: connection closed with %d reply bytes (callback ok=%v msg=%dB err=%v)", i, len(out), p.cbOK, len(p.cbMsg), p.cbErr != nil)
			}
			n := int(out[0])<<8 | int(out[1])
			if len(out) != 2+n {
				r.Fail("reply/malformed", "conn%d: reply has %d bytes, its length prefix says %d", i, len(out)-2, n)
			}
			text := string(out[2:])
			positive := len(text) >= 2 && text[:2] == "OK"
			if len(text) < 2 || (text[:2] != "OK" && text[:2] != "NO") {
				r.Fail("reply/not-ok-no", "conn%d: reply text %s", i, simrt.Q(text))
			}
			wantPos := derr == nil && len(p.calls) == 1 && p.cbOK && p.cbErr == nil
			if positive && !wantPos {
				r.Fail("reply/false-positive", "conn%d: positive reply although decoded=%v callback-calls=%d ok=%v err=%v", i, derr == nil, len(p.calls), p.cbOK, p.cbErr)
			}
			if !positive && wantPos {
				r.Fail("reply/false-negative", "conn%d: callback approved but the reply is %s", i, simrt.Q(text))
			}
			// decodable by the bundled client, through a fragmenting reader, with the callback's verdict
			var resp Response
			derr2 := resp.Decode(&schedReader{data: out, r: r, mode: 2})
			if derr2 != nil {
				r.Fail("reply/undecodable-by-client", "conn%d: the Go client cannot decode the %d-byte reply (callback msg %dB, err %v): %v", i, len(out), len(p.cbMsg), p.cbErr != nil, derr2)
			}
			if resp.Result != wantPos {
				r.Fail("reply/client-verdict", "conn%d: client decodes verdict %v, callback's verdict %v", i, resp.Result, wantPos)
			}
			r.Count("replies-checked")
			if final {
				pamCases = append(pamCases, "R "+hexs(out))
				pamWant = append(pamWant, wantPos)
			}
		}

		steps := 0
		acceptFaults := 0
		for steps < maxSteps {
			type act struct {
				kind string
				conn int
			}
			var acts []act
			open := 0
			for i, p := range plans {
				if !p.dialled {
					acts = append(acts, act{"dial", i})
					continue
				}
				if p.reset || p.fin {
					continue
				}
				open++
				if p.sent < len(p.stream) {
					acts = append(acts, act{"deliver", i}, act{"deliver-all", i})
				}
				if i >= nbase {
					continue // a slow peer of the crowd stays connected to the end of the run
				}
				acts = append(acts, act{"close", i})
				if r.Tier != "" {
					acts = append(acts, act{"reset", i})
				}
			}
			for i, p := range sched.Runnable() {
				_ = p
				acts = append(acts, act{"release", i})
			}
			if steps > 0 {
				acts = append(acts, act{"clock", 0})
			}
			if steps > 0 && acceptFaults < 2 {
				acts = append(acts, act{"accept-error", 0})
			}
			if len(acts) == 0 {
				break
			}
			// "stall": a connection that is never chosen again; ending the run early is that for all
			if steps > 6 && r.Choose("stop-early", stopDen) == 0 {
				r.Count("fault:client-stall")
				break
			}
			a := acts[r.Choose("action", len(acts))]
			if a.kind == "accept-error" {
				if r.Choose("really-accept-error", 5) == 0 {
					e := []syscall.Errno{syscall.EMFILE, syscall.ENFILE}[r.Choose("accept-errno", 2)] // what accept(2) really hands to Go's net package
					nw.InjectAcceptError("/run/whawty/auth.sock", e)
					acceptFaults++
					r.Count("fault:accept-" + e.Error())
					r.Logf("step %d: accept() fails once with %v", steps, e)
					synctest.Wait()
				}
				continue
			}
			if a.kind == "clock" {
				d := []time.Duration{time.Second, 3 * time.Second, 5 * time.Second, 8 * time.Second}[r.Choose("clock-step", 4)]
				r.Logf("step %d: clock +%v", steps, d)
				time.Sleep(d)
				synctest.Wait()
				for _, q := range plans {
					if q.dialled {
						q.pair.Deliver(false, 0)
						q.pair.DeliverFin(false)
					}
				}
				steps++
				for i := range plans {
					check(i, false)
				}
				continue
			}
			if a.kind == "release" {
				rs := sched.Runnable()
				g := rs[a.conn]
				r.Logf("step %d: release %s @%s", steps, g.Name, g.Site)
				cur = -2 // a released handler may call back: attributed below through the connection it reads
				sched.Release(g, nil)
				synctest.Wait()
				cur = -1
				for _, q := range plans {
					if q.dialled {
						q.pair.Deliver(false, 0)
						q.pair.DeliverFin(false)
					}
				}
				steps++
				for i := range plans {
					check(i, false)
				}
				continue
			}
			p := plans[a.conn]
			cur = a.conn
			switch a.kind {
			case "dial":
				pair, err := nw.DialPair("/run/whawty/auth.sock")
				if err != nil {
					r.Fail("harness/dial", "%v", err)
				}
				p.pair, p.dialled = pair, true
				r.Logf("step %d: conn%d dial", steps, a.conn)
			case "deliver", "deliver-all":
				k := len(p.stream) - p.sent
				if a.kind == "deliver" {
					max := k
					if max > 9 {
						max = 9
					}
					k = 1 + r.Choose("nbytes", max)
				}
				p.pair.C.Write(p.stream[p.sent : p.sent+k]) //nolint
				p.pair.Deliver(true, k)
				p.sent += k
				r.Logf("step %d: conn%d deliver %d bytes (%d/%d)", steps, a.conn, k, p.sent, len(p.stream))
				r.Count("fault:fragmented-delivery")
			case "close":
				if r.Choose("full-close", 4) == 0 {
					// the client goes away completely: a reply can no longer be delivered, none is owed
					p.pair.C.Close() //nolint
					p.gone = true
					r.Count("fault:client-gone")
				} else {
					p.pair.C.HalfClose() // shutdown(SHUT_WR): the client still waits for the reply
				}
				p.pair.DeliverFin(true)
				p.fin = true
				if p.sent < len(p.stream) {
					r.Count("fault:client-abandons-half-way")
				}
				r.Logf("step %d: conn%d client closes after %d/%d bytes", steps, a.conn, p.sent, len(p.stream))
			case "reset":
				if r.Choose("really-reset", 6) != 0 {
					continue
				}
				p.pair.Reset()
				p.reset = true
				r.Count("fault:connection-reset")
				r.Logf("step %d: conn%d reset", steps, a.conn)
			}
			synctest.Wait()
			p.pair.Deliver(false, 0)
			p.pair.DeliverFin(false)
			cur = -1
			steps++
			for i := range plans {
				check(i, false)
			}
		}
		// end of run: all clients close; every handler must finish
		for i, p := range plans {
			if p.dialled && !p.fin && !p.reset {
				cur = i
				p.pair.C.HalfClose()
				p.pair.DeliverFin(true)
				p.fin = true
				synctest.Wait()
				p.pair.Deliver(false, 0)
				cur = -1
			}
		}
		if acceptFaults > 0 {
			// the server keeps accepting after a transient accept() failure: one more client
			probe := &connPlan{stream: RefEncodeRequest([4]string{"probe-user", "probe-pass", "", ""}), desc: "probe after accept error", cbOK: true, cbMsg: "fine"}
			plans = append(plans, probe)
			if pair, err := nw.DialPair("/run/whawty/auth.sock"); err == nil {
				probe.pair, probe.dialled = pair, true
				cur = len(plans) - 1
				pair.C.Write(probe.stream) //nolint
				pair.Deliver(true, 0)
				probe.sent = len(probe.stream)
				synctest.Wait()
				cur = -1
			} else {
				r.Fail("server/stops-accepting", "after a transient accept() error the socket refuses connections: %v", err)
			}
		}
		time.Sleep(2 * time.Minute) // slow callbacks finish
		synctest.Wait()
		for guard := 0; guard < 100000; guard++ {
			rs := sched.Runnable()
			if len(rs) == 0 {
				break
			}
			cur = -2
			sched.Release(rs[0], nil)
			synctest.Wait()
			cur = -1
		}
		for _, q := range plans {
			if q.dialled {
				q.pair.Deliver(false, 0)
				q.pair.DeliverFin(false)
			}
		}
		for i := range plans {
			check(i, true)
		}
		// the PAM clause: every reply the server emitted, fed to the compiled PAM module
		if r.Choose("pam-clause", 3) == 0 && len(pamCases) > 0 {
			ans, err := pamBatch(pamCases)
			if err != nil {
				r.Fail("harness/pamsim", "%v", err)
			}
			if ans == nil {
				r.Count("pam-clause-skipped")
			}
			for i, a := range ans {
				ok := strings.HasPrefix(a, "0 ")
				if ok != pamWant[i] {
					r.Fail("reply/pam-verdict", "the PAM module returns %s for server reply %s, the callback's verdict was %v", strings.Fields(a)[0], pamCases[i][2:], pamWant[i])
				}
				r.Count("replies-decoded-by-pam-module")
			}
		}
		r.Steps += steps
		var descs []string
		for _, p := range plans {
			descs = append(descs, fmt.Sprintf("%s|ok=%v|msg=%d|err=%v|sent=%d|fin=%v|reset=%v", p.desc, p.cbOK, len(p.cbMsg), p.cbErr != nil, p.sent, p.fin, p.reset))
		}
		r.Nontrivial(fmt.Sprint(descs))
		r.Sample(map[string]any{"connections": descs, "steps": steps})
		srv.ln.Close() //nolint
	})
}
