//go:build verif

package shared

// Worker side of the framework (DESIGN.md 2.8): one test binary per harness package;
// the supervisor (tools/runner) starts N of these as separate OS processes.
//
//   VERIF_PROP     property id (C01 ...)
//   VERIF_BASE     base seed (VERIF_SEED of the check)
//   VERIF_FROM/TO  run indices [from,to) this worker executes (run seed = hash(base, prop, idx))
//   VERIF_STRIDE   index stride (worker k of n takes from+k, from+k+n, ...)
//   VERIF_BUDGET_MS wall-clock budget; the worker stops starting new runs after it
//   VERIF_TIER     quick | thorough (properties scale their inner sweeps)
//   VERIF_OUT      result file (JSON lines)
//   VERIF_REPLAY   replay file: re-execute exactly that run and report what happens
//
// Exit status of the test binary is not used for verdicts; the result file is.

import (
	"encoding/json"
	"fmt"
	"hash/fnv"
	"os"
	"regexp"
	"runtime/debug"
	"sort"
	"strconv"
	"strings"
	"testing"
	"time"

	"github.com/whawty/auth/zzverif/simrt"
)

// Violation is what an oracle reports.
type Violation struct {
	Prop string `json:"prop"`
	Sig  string `json:"sig"` // the oracle's own classification: clause/operation/failure class
	Msg  string `json:"msg"`
}

type runAbort struct{}

// Run is one simulated execution: a pure function of (property, tape).
type Run struct {
	Prop     string
	Tier     string
	T        *simrt.Tape
	Log      *simrt.Log
	Stats    map[string]int
	Viol     *Violation
	Foreign  []Violation // violations of other properties' oracles seen in this run (counted, not reported)
	Distinct map[uint64]bool
	Samples  []any
	SimTime  time.Duration
	Steps    int
	TB       *testing.T
	Known    map[string]bool // signatures listed as known findings (status known): do not stop the run
	KnownHit map[string]string
}

func (r *Run) Choose(kind string, n int) int { return r.T.Choose(kind, n) }
func (r *Run) Chance(kind string, num, den int) bool { return r.T.Chance(kind, num, den) }
func (r *Run) Logf(format string, a ...any) { r.Log.Printf(format, a...) }
func (r *Run) Count(k string)               { r.Stats[k]++ }
func (r *Run) Add(k string, n int)          { r.Stats[k] += n }

// Nontrivial records one distinct non-trivial case (by key).
func (r *Run) Nontrivial(key string) {
	h := fnv.New64a()
	h.Write([]byte(key))
	r.Distinct[h.Sum64()] = true
}

// Sample keeps up to three written-out cases per run.
func (r *Run) Sample(v any) {
	if len(r.Samples) < 2 {
		r.Samples = append(r.Samples, v)
	}
}

// Fail reports a violation of the property under check and ends the run, unless the
// signature is a listed known finding, in which case it is noted and the run goes on.
var reHex = regexp.MustCompile(`0x[0-9a-fA-F]+`)

// stable removes what differs between two processes executing the same run from a message:
// a stack trace is reduced to the functions of the code under test (and its libraries) with
// file:line, addresses are dropped.
func stable(msg string) string {
	i := strings.Index(msg, "goroutine ")
	if i < 0 || !strings.Contains(msg[i:], "\n\t") {
		return reHex.ReplaceAllString(msg, "0x?")
	}
	head, stack := msg[:i], msg[i:]
	lines := strings.Split(stack, "\n")
	var frames []string
	for k := 0; k+1 < len(lines); k++ {
		fn, loc := strings.TrimSpace(lines[k]), lines[k+1]
		if !strings.HasPrefix(loc, "\t") || !strings.Contains(loc, ".go:") {
			continue
		}
		loc = strings.TrimSpace(loc)
		if strings.Contains(loc, "/zz_") || strings.Contains(loc, "/zzverif/") || strings.Contains(loc, "/src/runtime/") || strings.Contains(loc, "/src/testing/") {
			continue
		}
		if j := strings.LastIndex(fn, "("); j > 0 {
			fn = fn[:j]
		}
		if j := strings.LastIndex(fn, "/"); j >= 0 {
			fn = fn[j+1:]
		}
		if j := strings.Index(loc, " +0x"); j > 0 {
			loc = loc[:j]
		}
		if j := strings.LastIndex(loc, "/"); j >= 0 {
			loc = loc[j+1:]
		}
		frames = append(frames, fn+" ("+loc+")")
		if len(frames) >= 8 {
			break
		}
	}
	return reHex.ReplaceAllString(strings.TrimRight(head, "\n"), "0x?") + "\n  in: " + strings.Join(frames, " <- ")
}

func (r *Run) Fail(sig, format string, a ...any) {
	msg := stable(fmt.Sprintf(format, a...))
	if r.Known[sig] {
		if _, ok := r.KnownHit[sig]; !ok {
			r.KnownHit[sig] = msg
		}
		r.Logf("KNOWN %s: %s", sig, msg)
		return
	}
	if r.Viol == nil {
		r.Viol = &Violation{Prop: r.Prop, Sig: sig, Msg: msg}
		r.Logf("VIOLATION %s: %s", sig, msg)
	}
	panic(runAbort{})
}

// FailOther notes a violation that belongs to another property's oracle.
func (r *Run) FailOther(prop, sig, format string, a ...any) {
	if prop == r.Prop {
		r.Fail(sig, format, a...)
		return
	}
	r.Stats["seen-belongs-to-"+prop]++
	if len(r.Foreign) < 4 {
		r.Foreign = append(r.Foreign, Violation{Prop: prop, Sig: sig, Msg: fmt.Sprintf(format, a...)})
	}
}

// PropFunc executes one run.
type PropFunc func(r *Run)

var props = map[string]PropFunc{}

func register(id string, f PropFunc) { props[id] = f }

type resultLine struct {
	Type      string            `json:"type"` // stats | violation | known | replay | error
	Prop      string            `json:"prop"`
	Runs      int               `json:"runs,omitempty"`
	Steps     int               `json:"steps,omitempty"`
	SimTimeNs int64             `json:"sim_time_ns,omitempty"`
	WallMs    int64             `json:"wall_ms,omitempty"`
	Stats     map[string]int    `json:"stats,omitempty"`
	Distinct  []uint64          `json:"distinct,omitempty"`
	Samples   []any             `json:"samples,omitempty"`
	Sig       string            `json:"sig,omitempty"`
	Msg       string            `json:"msg,omitempty"`
	Seed      uint64            `json:"seed,omitempty"`
	Idx       int               `json:"idx,omitempty"`
	Tape      []int             `json:"tape,omitempty"`
	Decisions []simrt.Decision  `json:"decisions,omitempty"`
	Log       []string          `json:"log,omitempty"`
	LogHash   string            `json:"log_hash,omitempty"`
	OrigLen   int               `json:"orig_tape_len,omitempty"`
	MinRuns   int               `json:"minimise_runs,omitempty"`
	Known     map[string]string `json:"known,omitempty"`
	Foreign   []Violation       `json:"foreign,omitempty"`
	Tier      string            `json:"tier,omitempty"`
}

var knownSigs = map[string]bool{}

func loadKnown() {
	// VERIF_KNOWN: comma separated signatures with status "known" (from known_findings.json)
	for _, s := range strings.Split(os.Getenv("VERIF_KNOWN"), ",") {
		if s != "" {
			knownSigs[s] = true
		}
	}
}

// execute runs prop once with the given tape and returns the finished Run.
func execute(tb *testing.T, prop, tier string, tape *simrt.Tape, keepLog int) (r *Run) {
	r = &Run{Prop: prop, Tier: tier, T: tape, Log: &simrt.Log{Max: keepLog}, Stats: map[string]int{}, Distinct: map[uint64]bool{},
		TB: tb, Known: knownSigs, KnownHit: map[string]string{}}
	f := props[prop]
	if f == nil {
		r.Viol = &Violation{Prop: prop, Sig: "harness/unknown-property", Msg: "no such property in this harness binary"}
		return
	}
	r.Logf("run prop=%s seed=%d tier=%s", prop, tape.Seed, tier)
	func() {
		defer func() {
			if x := recover(); x != nil {
				if _, ok := x.(runAbort); ok {
					return
				}
				// a panic that escaped the property function: harness trouble unless the
				// property function converted it itself
				st := string(debug.Stack())
				sig := "harness/panic"
				// whose panic is it? the first frame below the panic call decides: a frame of the
				// code under test (or of a library it calls) makes it a violation, a harness frame
				// makes it trouble of the check itself
				if fn := panicOrigin(fmt.Sprint(x)); fn != "" { // a panic inside a bubble arrives re-thrown with its original stack as text
					sig = "panic/in-code-under-test/" + fn
				} else if fn := panicOrigin(st); fn != "" && !strings.Contains(fmt.Sprint(x), "goroutine ") {
					sig = "panic/in-code-under-test/" + fn
				}
				r.Viol = &Violation{Prop: prop, Sig: sig, Msg: fmt.Sprintf("panic: %v\n%s", x, st)}
			}
		}()
		f(r)
	}()
	return
}

// panicOrigin returns the function in which a panic was raised if that function belongs to
// the code under test or to a library (not to the harness, the simulator or the runtime's
// own panic plumbing); "" otherwise.
func panicOrigin(stack string) string {
	lines := strings.Split(stack, "\n")
	seenPanic := false
	for i := 0; i+1 < len(lines); i++ {
		fn, loc := strings.TrimSpace(lines[i]), strings.TrimSpace(lines[i+1])
		if strings.HasPrefix(fn, "panic(") {
			seenPanic = true
			continue
		}
		if !seenPanic || !strings.Contains(loc, ".go:") {
			continue
		}
		if strings.Contains(loc, "/src/runtime/") {
			continue
		}
		if strings.Contains(loc, "/zz_") || strings.Contains(loc, "/zzverif/") || strings.Contains(loc, "/src/testing/") {
			return ""
		}
		if j := strings.LastIndex(fn, "("); j > 0 {
			fn = fn[:j]
		}
		if j := strings.LastIndex(fn, "/"); j >= 0 {
			fn = fn[j+1:]
		}
		return fn
	}
	return ""
}

func envInt(k string, def int) int {
	if v, err := strconv.Atoi(os.Getenv(k)); err == nil {
		return v
	}
	return def
}

// minimise shrinks a failing run while the violation signature persists. Decisions are
// grouped into per-kind streams (the k-th "call-kind" decision, the k-th "who-runs" decision,
// ...), so that removing or lowering the decisions of one kind leaves every other kind
// aligned: whole streams are emptied, halved, zeroed in chunks and lowered, largest first.
func minimise(tb *testing.T, prop, tier string, seed uint64, dec []simrt.Decision, sig string, budget time.Duration) (map[string][]int, int) {
	deadline := time.Now().Add(budget)
	runs := 0
	cur := simrt.Streams(dec)
	curLen := len(dec)
	clone := func(m map[string][]int) map[string][]int {
		c := make(map[string][]int, len(m))
		for k, v := range m {
			c[k] = append([]int(nil), v...)
		}
		return c
	}
	fails := func(m map[string][]int) bool {
		if time.Now().After(deadline) || runs > 700 {
			return false
		}
		runs++
		t := simrt.NewStreamTape(seed, clone(m))
		r := execute(tb, prop, tier, t, 1)
		// a candidate is only simpler if the run it produces is not longer
		if r.Viol != nil && r.Viol.Sig == sig && len(t.Rec) <= curLen {
			curLen = len(t.Rec)
			return true
		}
		return false
	}
	kinds := func() []string {
		var ks []string
		for k := range cur {
			ks = append(ks, k)
		}
		sort.Slice(ks, func(i, j int) bool {
			if len(cur[ks[i]]) != len(cur[ks[j]]) {
				return len(cur[ks[i]]) > len(cur[ks[j]])
			}
			return ks[i] < ks[j]
		})
		return ks
	}
	for pass := 0; pass < 2; pass++ {
		for _, k := range kinds() {
			st := cur[k]
			allZero := true
			for _, v := range st {
				if v != 0 {
					allZero = false
				}
			}
			if allZero {
				continue
			}
			// empty the stream (every decision of this kind takes its boring alternative)
			c := clone(cur)
			c[k] = nil
			if fails(c) {
				cur = c
				continue
			}
			// keep a prefix
			for n := len(st) / 2; n >= 1; n /= 2 {
				c := clone(cur)
				c[k] = append([]int(nil), cur[k][:min(n, len(cur[k]))]...)
				if fails(c) {
					cur = c
				} else {
					break
				}
			}
			// zero chunks
			for chunk := (len(cur[k]) + 1) / 2; chunk >= 1; chunk /= 2 {
				for start := 0; start < len(cur[k]); start += chunk {
					c := clone(cur)
					changed := false
					for i := start; i < start+chunk && i < len(c[k]); i++ {
						if c[k][i] != 0 {
							c[k][i] = 0
							changed = true
						}
					}
					if changed && fails(c) {
						cur = c
					}
				}
				if chunk == 1 {
					break
				}
			}
			// lower single values
			for i := range cur[k] {
				if cur[k][i] > 1 {
					c := clone(cur)
					c[k][i] = 1
					if fails(c) {
						cur = c
					}
				}
			}
			// drop trailing zeros
			for len(cur[k]) > 0 && cur[k][len(cur[k])-1] == 0 {
				cur[k] = cur[k][:len(cur[k])-1]
			}
		}
		if time.Now().After(deadline) {
			break
		}
	}
	return cur, runs
}

type replayFile struct {
	Prop      string           `json:"property"`
	Sig       string           `json:"signature"`
	Msg       string           `json:"violation"`
	Seed      uint64           `json:"run_seed"`
	Tier      string           `json:"tier"`
	Tape      []int            `json:"tape"`
	Decisions []simrt.Decision `json:"decisions"`
	Log       []string         `json:"event_log"`
	LogHash   string           `json:"event_log_sha"`
	OrigLen   int              `json:"original_tape_len"`
	Pkg       string           `json:"harness"`
}

// TestVerif is the single entry point of a harness binary.
func TestVerif(t *testing.T) {
	prop := os.Getenv("VERIF_PROP")
	if prop == "" {
		t.Skip("VERIF_PROP not set")
	}
	loadKnown()
	tier := os.Getenv("VERIF_TIER")
	if tier == "" {
		tier = "quick"
	}
	outPath := os.Getenv("VERIF_OUT")
	var out *os.File
	if outPath != "" {
		var err error
		out, err = os.OpenFile(outPath, os.O_CREATE|os.O_WRONLY|os.O_APPEND, 0o644)
		if err != nil {
			t.Fatalf("cannot open VERIF_OUT: %v", err)
		}
		defer out.Close()
	} else {
		out = os.Stdout
	}
	emit := func(l resultLine) {
		l.Prop = prop
		l.Tier = tier
		b, err := json.Marshal(l)
		if err != nil {
			b, _ = json.Marshal(resultLine{Type: "error", Prop: prop, Msg: "marshal: " + err.Error()})
		}
		out.Write(append(b, '\n'))
	}

	if rp := os.Getenv("VERIF_REPLAY"); rp != "" {
		b, err := os.ReadFile(rp)
		if err != nil {
			emit(resultLine{Type: "error", Msg: err.Error()})
			return
		}
		var rf replayFile
		if err := json.Unmarshal(b, &rf); err != nil {
			emit(resultLine{Type: "error", Msg: err.Error()})
			return
		}
		if rf.Tier != "" {
			tier = rf.Tier
		}
		var tape *simrt.Tape
		if os.Getenv("VERIF_REPLAY_SEARCH") != "" {
			tape = simrt.NewTape(rf.Seed) // seed-only replay (no tape recorded: process-level crash)
		} else {
			tape = simrt.NewStreamTape(rf.Seed, simrt.Streams(rf.Decisions))
		}
		r := execute(t, prop, tier, tape, 4000)
		l := resultLine{Type: "replay", Seed: rf.Seed, Log: r.Log.Lines, LogHash: r.Log.Hash(), Msg: tape.Diverged}
		if r.Viol != nil {
			l.Sig, l.Msg = r.Viol.Sig, r.Viol.Msg
			if tape.Diverged != "" {
				l.Msg += " [replay diverged: " + tape.Diverged + "]"
			}
		}
		l.Known = r.KnownHit
		emit(l)
		return
	}

	base := uint64(envInt("VERIF_BASE", 1))
	from, to := envInt("VERIF_FROM", 0), envInt("VERIF_TO", 1)
	stride := envInt("VERIF_STRIDE", 1)
	budget := time.Duration(envInt("VERIF_BUDGET_MS", 20000)) * time.Millisecond
	curPath := os.Getenv("VERIF_CUR")
	start := time.Now()
	agg := resultLine{Type: "stats", Stats: map[string]int{}, Known: map[string]string{}}
	distinct := map[uint64]bool{}
	reported := map[string]bool{}
	for idx := from; idx < to; idx += stride {
		if time.Since(start) > budget {
			break
		}
		seed := simrt.HashSeed(base, prop, idx)
		if curPath != "" {
			os.WriteFile(curPath, []byte(fmt.Sprintf("%d %d\n", idx, seed)), 0o644)
		}
		tape := simrt.NewTape(seed)
		// isolation phase (one OS process per run): the code under test keeps state at package level,
		// so nothing may be executed twice in this process - the first execution keeps its full log
		// and is what gets reported
		isolated := os.Getenv("VERIF_ISOLATED") != ""
		logCap := 1
		if isolated {
			logCap = 4000
		}
		r := execute(t, prop, tier, tape, logCap)
		if dd := os.Getenv("VERIF_DUMPLOG"); dd != "" {
			// debugging aid for the determinism self-test: the full event log of every run
			rr := execute(t, prop, tier, simrt.NewTape(seed), 100000)
			os.WriteFile(fmt.Sprintf("%s/%d.log", dd, idx), []byte(strings.Join(rr.Log.Lines, "\n")), 0o644)
			var ds []string
			for _, d := range rr.T.Rec {
				ds = append(ds, fmt.Sprintf("%s/%d=%d", d.Kind, d.N, d.V))
			}
			os.WriteFile(fmt.Sprintf("%s/%d.tape", dd, idx), []byte(strings.Join(ds, "\n")), 0o644)
		}
		if hl := os.Getenv("VERIF_HASHLOG"); hl != "" {
			// determinism self-test: one line per run with the hash of its complete event log
			if f, err := os.OpenFile(hl, os.O_CREATE|os.O_WRONLY|os.O_APPEND, 0o644); err == nil {
				sig := ""
				if r.Viol != nil {
					sig = r.Viol.Sig
				}
				fmt.Fprintf(f, "%d %d %s %d %d %s\n", idx, seed, r.Log.Hash(), r.Log.Len(), tape.Pos(), sig)
				f.Close()
			}
		}
		agg.Runs++
		agg.Steps += r.Steps
		agg.SimTimeNs += int64(r.SimTime)
		for k, v := range r.Stats {
			agg.Stats[k] += v
		}
		for k := range r.Distinct {
			if len(distinct) < 400000 {
				distinct[k] = true
			}
		}
		for k, v := range r.KnownHit {
			if _, ok := agg.Known[k]; !ok {
				agg.Known[k] = fmt.Sprintf("seed=%d: %s", seed, v)
			}
		}
		if len(agg.Samples) < 3 && len(r.Samples) > 0 {
			agg.Samples = append(agg.Samples, r.Samples[0])
		}
		for _, fv := range r.Foreign {
			if len(agg.Foreign) < 5 {
				agg.Foreign = append(agg.Foreign, fv)
			}
		}
		if r.Viol != nil {
			agg.Stats["violating-runs"]++
			if reported[r.Viol.Sig] {
				continue
			}
			reported[r.Viol.Sig] = true
			vals := tape.Values()
			sig := r.Viol.Sig
			if isolated {
				emit(resultLine{Type: "violation", Sig: sig, Seed: seed, Idx: idx, Tape: vals, Decisions: tape.Rec,
					Log: r.Log.Lines, LogHash: r.Log.Hash(), OrigLen: len(vals), Msg: r.Viol.Msg})
				continue
			}
			streams, mruns := simrt.Streams(tape.Rec), 0
			if !strings.HasPrefix(sig, "harness/") && os.Getenv("VERIF_NOMIN") == "" {
				streams, mruns = minimise(t, prop, tier, seed, tape.Rec, sig, 60*time.Second)
			}
			// final run of the minimised streams: its decisions and event log are the replay file
			ft := simrt.NewStreamTape(seed, streams)
			fr := execute(t, prop, tier, ft, 4000)
			if fr.Viol == nil || fr.Viol.Sig != sig {
				// minimisation result does not reproduce (should not happen): fall back to the original
				ft = simrt.NewStreamTape(seed, simrt.Streams(tape.Rec))
				fr = execute(t, prop, tier, ft, 4000)
			}
			minVals := ft.Values()
			l := resultLine{Type: "violation", Sig: sig, Seed: seed, Idx: idx, Tape: minVals, Decisions: ft.Rec,
				Log: fr.Log.Lines, LogHash: fr.Log.Hash(), OrigLen: len(vals), MinRuns: mruns}
			if fr.Viol != nil {
				l.Msg = fr.Viol.Msg
			} else {
				l.Msg = r.Viol.Msg + " [did not reproduce in-process]"
				l.Sig = "harness/nondeterministic:" + sig
			}
			emit(l)
		}
	}
	agg.WallMs = time.Since(start).Milliseconds()
	for k := range distinct {
		agg.Distinct = append(agg.Distinct, k)
	}
	sort.Slice(agg.Distinct, func(i, j int) bool { return agg.Distinct[i] < agg.Distinct[j] })
	emit(agg)
}
