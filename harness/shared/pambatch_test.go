//go:build verif

package shared

import (
	"bytes"
	"encoding/hex"
	"fmt"
	"os"
	"os/exec"
	"strings"
)

// pamBatch runs the compiled PAM module (C simulator, batch mode, fault-free syscall
// layer) on the given cases: "R <hex reply>" -> the module's return value for that agent
// reply; "E <hex user> <hex password>" -> the request bytes the module writes.
// Returns one "<ret> <hex request>" line per case, or nil when the simulator binary is
// not available to this worker.
func pamBatch(cases []string) ([]string, error) {
	bin := os.Getenv("VERIF_PAMSIM")
	if bin == "" || len(cases) == 0 {
		return nil, nil
	}
	cmd := exec.Command(bin)
	cmd.Env = append(os.Environ(), "VERIF_PAM_BATCH=1", "ASAN_OPTIONS=detect_leaks=0")
	cmd.Stdin = strings.NewReader(strings.Join(cases, "\n") + "\n")
	var out, errb bytes.Buffer
	cmd.Stdout, cmd.Stderr = &out, &errb
	if err := cmd.Run(); err != nil {
		return nil, fmt.Errorf("pamsim batch: %v: %s", err, errb.String())
	}
	lines := strings.Split(strings.TrimSpace(out.String()), "\n")
	if len(lines) != len(cases) {
		return nil, fmt.Errorf("pamsim batch: %d cases, %d answers: %s", len(cases), len(lines), errb.String())
	}
	return lines, nil
}

func hexs(b []byte) string { return hex.EncodeToString(b) }
