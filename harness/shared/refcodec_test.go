//go:build verif

package shared

// Reference codec of the saslauthd framing (DESIGN.md 2.7), written from the property
// statement: each field is a 16-bit big-endian length followed by that many bytes; request
// = login, password, service, realm, each at most 256 bytes, login and password not
// empty; response = one field "OK" or "NO", optionally a space and a message.

import (
	"errors"
	"strings"
)

const refMaxField = 256

func refPutField(b []byte, s string) []byte {
	b = append(b, byte(len(s)>>8), byte(len(s)))
	return append(b, s...)
}

func RefEncodeRequest(f [4]string) []byte {
	var b []byte
	for _, s := range f {
		b = refPutField(b, s)
	}
	return b
}

var (
	errRefShort = errors.New("ref: truncated")
	errRefLong  = errors.New("ref: field over limit")
	errRefEmpty = errors.New("ref: empty login or password")
)

// RefDecodeRequest decodes the first request in b; consumed = bytes it occupies.
func RefDecodeRequest(b []byte) (f [4]string, consumed int, err error) {
	p := 0
	for i := 0; i < 4; i++ {
		if len(b)-p < 2 {
			return f, 0, errRefShort
		}
		n := int(b[p])<<8 | int(b[p+1])
		if n > refMaxField {
			return f, 0, errRefLong
		}
		p += 2
		if len(b)-p < n {
			return f, 0, errRefShort
		}
		f[i] = string(b[p : p+n])
		p += n
	}
	if f[0] == "" || f[1] == "" {
		return f, 0, errRefEmpty
	}
	return f, p, nil
}

func RefEncodeResponse(ok bool, msg string) []byte {
	s := "NO"
	if ok {
		s = "OK"
	}
	if msg != "" {
		s += " " + msg
	}
	return refPutField(nil, s)
}

// RefDecodeResponse: strict grammar. lenient=true when the text starts with OK/NO but
// is not followed by a space (the statement leaves such input open).
func RefDecodeResponse(b []byte) (ok bool, msg string, lenient bool, err error) {
	if len(b) < 2 {
		return false, "", false, errRefShort
	}
	n := int(b[0])<<8 | int(b[1])
	if len(b)-2 < n {
		return false, "", false, errRefShort
	}
	s := string(b[2 : 2+n])
	if len(s) < 2 || (s[:2] != "OK" && s[:2] != "NO") {
		return false, "", false, errors.New("ref: not OK/NO")
	}
	ok = s[:2] == "OK"
	if len(s) == 2 {
		return ok, "", false, nil
	}
	if s[2] != ' ' {
		return ok, "", true, nil
	}
	if n > refMaxField {
		return ok, s[3:], true, nil // over the field limit: decoders may refuse
	}
	return ok, s[3:], false, nil
}

// seededBytes returns n pseudo-random bytes determined by tag (cheap: no tape decisions).
func seededBytes(tag uint64, n int) string {
	var sb strings.Builder
	x := tag*0x9e3779b97f4a7c15 + 1
	for i := 0; i < n; i++ {
		x ^= x << 13
		x ^= x >> 7
		x ^= x << 17
		sb.WriteByte(byte(x >> 24))
	}
	return sb.String()
}
