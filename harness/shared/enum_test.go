//go:build verif

package shared

// EnumChoices calls f once per leaf of the choice tree f explores through choose, in
// depth-first order, up to limit leaves. It reports whether the tree was exhausted.
// f must be deterministic given the choices.
func EnumChoices(limit int, f func(choose func(kind string, n int) int)) (leaves int, exhaustive bool) {
	type frame struct{ n, v int }
	var path []frame
	for {
		pos := 0
		f(func(kind string, n int) int {
			if n <= 1 {
				return 0
			}
			if pos < len(path) {
				v := path[pos].v
				pos++
				return v
			}
			path = append(path, frame{n, 0})
			pos++
			return 0
		})
		leaves++
		// backtrack: drop exhausted frames, advance the deepest one that can move
		path = path[:pos]
		for len(path) > 0 && path[len(path)-1].v >= path[len(path)-1].n-1 {
			path = path[:len(path)-1]
		}
		if len(path) == 0 {
			return leaves, true
		}
		path[len(path)-1].v++
		if leaves >= limit {
			return leaves, false
		}
	}
}
