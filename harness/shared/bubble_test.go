//go:build verif

package shared

import (
	crand "crypto/rand"
	"fmt"
	mrand "math/rand/v2"
	"runtime/debug"
	"strings"
	"testing"
	"testing/synctest"
	"time"

	"github.com/whawty/auth/zzverif/simrand"
	"github.com/whawty/auth/zzverif/simrandv2"
	"github.com/whawty/auth/zzverif/simrt"
)

// ---------------------------------------------------------------------------------
// seeded, recording crypto/rand

type randSeg struct {
	Off int
	B   []byte
}

type randRecorder struct {
	src  *mrand.ChaCha8
	off  int
	Segs []randSeg
}

func newRandRecorder(seed uint64) *randRecorder {
	var s [32]byte
	for i := 0; i < 8; i++ {
		s[i] = byte(seed >> (8 * i))
	}
	copy(s[8:], "whawty-verif-crypto-rand")
	return &randRecorder{src: mrand.NewChaCha8(s)}
}

func (rr *randRecorder) Read(b []byte) (int, error) {
	rr.src.Read(b)
	rr.Segs = append(rr.Segs, randSeg{rr.off, append([]byte(nil), b...)})
	rr.off += len(b)
	return len(b), nil
}

// ---------------------------------------------------------------------------------

// inBubble runs f inside a synctest bubble with the run's crypto/rand stream installed;
// runAbort and other panics propagate to the caller.
func inBubble(r *Run, f func(rr *randRecorder)) {
	var pan any
	var stack string
	rr := newRandRecorder(r.T.Seed)
	simrt.NextEpoch() // package-level simsync state of the code under test starts afresh
	simrand.Reseed(r.T.Seed)
	simrandv2.Reseed(r.T.Seed)
	prev := crand.Reader
	crand.Reader = rr
	defer func() { crand.Reader = prev }()
	func() {
		defer func() {
			// synctest's own end-of-bubble panic ("blocked goroutines remain") when a run
			// abandons goroutines on purpose
			if x := recover(); x != nil {
				if strings.Contains(fmt.Sprint(x), "main bubble goroutine has exited but blocked goroutines remain") {
					return // expected: a run leaves the agent's goroutines behind, frozen in a dead bubble
				}
				if pan == nil {
					pan = x
				}
			}
		}()
		synctest.Test(r.TB, func(t *testing.T) {
			defer func() {
				if x := recover(); x != nil {
					pan = x
					stack = string(debug.Stack())
				}
			}()
			start := time.Now()
			defer func() { r.SimTime += time.Since(start) }()
			f(rr)
		})
	}()
	if pan != nil {
		if _, ok := pan.(runAbort); ok {
			panic(pan)
		}
		panic(fmt.Sprintf("%v\n%s", pan, stack))
	}
}

