//go:build verif

package shared

// Independent reference implementation of doc/SCHEMA.md (DESIGN.md 2.7): record
// grammar, digest functions built directly on x/crypto primitives, parameter sets taken
// from the YAML text the harness itself generates. Nothing here calls package store or
// scryptauth.

import (
	"bytes"
	"crypto/hmac"
	"crypto/sha256"
	"encoding/base64"
	"fmt"
	"regexp"
	"sort"
	"strconv"
	"strings"

	"golang.org/x/crypto/argon2"
	"golang.org/x/crypto/scrypt"
)

type PSet struct {
	ID      uint
	Algo    string // "hmac_sha256_scrypt" | "argon2id"
	Key     []byte // scrypt: hmac key
	Cost    uint
	R, P    int // 0 = not given in the YAML (defaults 8 / 1)
	Time    uint32
	Memory  uint32
	Threads uint8
	Length  uint32
}

const (
	algoScrypt = "hmac_sha256_scrypt"
	algoArgon  = "argon2id"
)

func (p PSet) SaltLen() int {
	if p.Algo == algoScrypt {
		return 32
	}
	return 16
}

func (p PSet) YAML() string {
	var b strings.Builder
	fmt.Fprintf(&b, "  - id: %d\n", p.ID)
	if p.Algo == algoScrypt {
		fmt.Fprintf(&b, "    scryptauth:\n      hmackey: %q\n      cost: %d\n", base64.StdEncoding.EncodeToString(p.Key), p.Cost)
		if p.R != 0 {
			fmt.Fprintf(&b, "      r: %d\n", p.R)
		}
		if p.P != 0 {
			fmt.Fprintf(&b, "      p: %d\n", p.P)
		}
	} else {
		fmt.Fprintf(&b, "    argon2id:\n      time: %d\n      memory: %d\n      threads: %d\n      length: %d\n", p.Time, p.Memory, p.Threads, p.Length)
	}
	return b.String()
}

func (p PSet) Desc() string {
	if p.Algo == algoScrypt {
		return fmt.Sprintf("%d:scrypt(cost=%d,r=%d,p=%d)", p.ID, p.Cost, p.R, p.P)
	}
	return fmt.Sprintf("%d:argon2id(t=%d,m=%d,p=%d,l=%d)", p.ID, p.Time, p.Memory, p.Threads, p.Length)
}

// Digest is the schema's function.
func (p PSet) Digest(pw string, salt []byte) []byte {
	if p.Algo == algoScrypt {
		r, pp := p.R, p.P
		if r <= 0 {
			r = 8
		}
		if pp <= 0 {
			pp = 1
		}
		k, err := scrypt.Key([]byte(pw), salt, 1<<p.Cost, r, pp, 32)
		if err != nil {
			return nil
		}
		m := hmac.New(sha256.New, p.Key)
		m.Write(k)
		return m.Sum(nil)
	}
	if p.Time < 1 || p.Threads < 1 {
		return nil
	}
	return argon2.IDKey([]byte(pw), salt, p.Time, p.Memory, p.Threads, p.Length)
}

// Canon maps a password to its equivalence class under the set's algorithm: PBKDF2-HMAC
// (inside scrypt) zero-pads keys to the 64-byte block and hashes longer ones first.
func (p PSet) Canon(pw string) string {
	if p.Algo != algoScrypt {
		return "a:" + pw
	}
	k := []byte(pw)
	if len(k) > 64 {
		h := sha256.Sum256(k)
		k = h[:]
	}
	k = bytes.TrimRight(k, "\x00")
	return "s:" + string(k)
}

type RefRecord struct {
	Algo    string
	Stamp   int64
	ParamID uint64
	Salt    []byte
	Digest  []byte
	SaltB64 string
	DigB64  string
}

var b64urlRe = regexp.MustCompile(`^[A-Za-z0-9_-]*={0,2}$`)

// ParseStrict parses a record line (without the newline) exactly as the schema and C14
// state it: five ':'-separated fields, decimal stamp and id, padded URL-safe base64.
func ParseStrict(line string) (RefRecord, error) {
	var r RefRecord
	f := strings.Split(line, ":")
	if len(f) != 5 {
		return r, fmt.Errorf("%d fields", len(f))
	}
	r.Algo = f[0]
	if !regexp.MustCompile(`^[0-9]+$`).MatchString(f[1]) {
		return r, fmt.Errorf("stamp %q not decimal", f[1])
	}
	r.Stamp, _ = strconv.ParseInt(f[1], 10, 64)
	if !regexp.MustCompile(`^[1-9][0-9]*$`).MatchString(f[2]) {
		return r, fmt.Errorf("param id %q not a positive decimal", f[2])
	}
	r.ParamID, _ = strconv.ParseUint(f[2], 10, 64)
	for i, s := range f[3:] {
		if !b64urlRe.MatchString(s) || len(s)%4 != 0 {
			return r, fmt.Errorf("field %d is not padded base64url", i+3)
		}
	}
	var err error
	if r.Salt, err = base64.URLEncoding.Strict().DecodeString(f[3]); err != nil {
		return r, err
	}
	if r.Digest, err = base64.URLEncoding.Strict().DecodeString(f[4]); err != nil {
		return r, err
	}
	r.SaltB64, r.DigB64 = f[3], f[4]
	return r, nil
}

// FirstLine returns the content up to (not including) the first '\n', and the rest
// (the auxiliary data, starting after that newline).
func FirstLine(content string) (string, string) {
	if i := strings.IndexByte(content, '\n'); i >= 0 {
		return content[:i], content[i+1:]
	}
	return content, ""
}

// RefVerifyLenient says whether file content is a record of a configured set whose
// digest matches pw. Lenient where decoders commonly are (CR/LF inside base64 ignored,
// leading zeros / sign in numbers accepted): used one-directionally (real success =>
// reference success).
func RefVerifyLenient(sets map[uint]PSet, content, pw string) bool {
	line, _ := FirstLine(content)
	f := strings.SplitN(line, ":", 4)
	if len(f) != 4 {
		return false
	}
	id, err := strconv.ParseUint(strings.TrimPrefix(f[2], "+"), 10, 64)
	if err != nil {
		return false
	}
	p, ok := sets[uint(id)]
	if !ok || uint64(p.ID) != id || p.Algo != f[0] {
		return false
	}
	sd := strings.Split(f[3], ":")
	if len(sd) != 2 {
		return false
	}
	salt, err := base64.URLEncoding.DecodeString(sd[0])
	if err != nil {
		return false
	}
	dig, err := base64.URLEncoding.DecodeString(sd[1])
	if err != nil {
		return false
	}
	if len(dig) == 0 {
		return false
	}
	want := p.Digest(pw, salt)
	return want != nil && hmac.Equal(want, dig)
}

// RefSupported: the record names a configured set of the same algorithm and carries
// decodable, non-empty salt and digest (the reference notion of "supported hash").
func RefSupported(sets map[uint]PSet, content string) bool {
	line, _ := FirstLine(content)
	r, err := ParseStrict(line)
	if err != nil {
		return false
	}
	p, ok := sets[uint(r.ParamID)]
	if !ok || p.Algo != r.Algo {
		return false
	}
	return len(r.Salt) > 0 && len(r.Digest) > 0
}

// RefWrite produces a record line the way an independent agent would.
func RefWrite(p PSet, pw string, salt []byte, stamp int64) string {
	return fmt.Sprintf("%s:%d:%d:%s:%s", p.Algo, stamp, p.ID, base64.URLEncoding.EncodeToString(salt), base64.URLEncoding.EncodeToString(p.Digest(pw, salt)))
}

type Config struct {
	BaseDir string
	Default uint
	Sets    []PSet
}

func (c Config) SetMap() map[uint]PSet {
	m := map[uint]PSet{}
	for _, s := range c.Sets {
		m[s.ID] = s
	}
	return m
}

func (c Config) YAML() string {
	var b strings.Builder
	fmt.Fprintf(&b, "basedir: %q\ndefault: %d\nparams:\n", c.BaseDir, c.Default)
	for _, s := range c.Sets {
		b.WriteString(s.YAML())
	}
	return b.String()
}

func (c Config) Desc() string {
	var d []string
	for _, s := range c.Sets {
		d = append(d, s.Desc())
	}
	sort.Strings(d)
	return fmt.Sprintf("base=%s default=%d sets=[%s]", c.BaseDir, c.Default, strings.Join(d, " "))
}

func keyN(i int) []byte {
	h := sha256.Sum256([]byte(fmt.Sprintf("hmac-key-%d", i)))
	return h[:]
}

var idPool = []uint{1, 2, 3, 7, 42, 1000, 65536, 4294967295, 1 << 63, 1<<64 - 2, 1<<63 - 1, 4294967296}

// GenPSet draws one cheap parameter set.
func GenPSet(r *Run, id uint) PSet {
	if r.Choose("algo", 2) == 0 {
		return PSet{ID: id, Algo: algoScrypt, Key: keyN(r.Choose("key", 3)), Cost: uint(1 + r.Choose("cost", 4)),
			R: []int{0, 1, 2}[r.Choose("r", 3)], P: []int{0, 1, 2}[r.Choose("p", 3)]}
	}
	return PSet{ID: id, Algo: algoArgon, Time: uint32(1 + r.Choose("time", 2)), Memory: []uint32{8, 16, 64}[r.Choose("mem", 3)],
		Threads: []uint8{1, 2, 4}[r.Choose("thr", 3)], Length: []uint32{32, 16, 24, 64, 32, 3100, 4200, 8, 12}[r.Choose("len", 9)]}
}

// GenConfig draws a store configuration with 1..3 parameter sets and any default.
func GenConfig(r *Run, base string) Config {
	n := 1 + r.Choose("nsets", 3)
	c := Config{BaseDir: base}
	used := map[uint]bool{}
	for i := 0; i < n; i++ {
		id := idPool[r.Choose("setid", len(idPool))]
		for used[id] || id == 0 {
			id++ // wraps to 0 after the largest id; 0 is reserved
		}
		used[id] = true
		c.Sets = append(c.Sets, GenPSet(r, id))
	}
	c.Default = c.Sets[r.Choose("default", n)].ID
	return c
}

// names include dotted extensions of other names (bob / bob.smith / bob.admin) and names that
// look like file extensions
var namePool = []string{"alice", "bob", "a.user", "x.admin", "0", "Carol_9", "d@example.org", "e-f", strings.Repeat("n", 200), "bob.smith", "bob.admin", "alice.user", "bob.smith@example.org"}

var pwPool = []string{
	"secret", "", "x", "pass:word", "line\nbreak", "nul\x00byte", "\xff\xfe\xfd", "trailing\x00", "trailing\x00\x00",
	strings.Repeat("a", 63), strings.Repeat("a", 64), strings.Repeat("a", 65), strings.Repeat("b", 65),
	"Secret", "secret ", " secret", "secre", "secrett", strings.Repeat("long-password-", 300), "\x00", "\x00\x00",
	"correct horse battery staple", "pässwörd", "p", "pa",
	strings.Repeat("k", 1023), strings.Repeat("k", 1024), strings.Repeat("k", 1025), "\tsecret", "secret\r\n", "\u00a0secret",
}

// GenPassword draws a password: mostly from the pool, sometimes derived (so near misses
// and equivalent forms of earlier passwords occur).
func GenPassword(r *Run) string {
	return pwPool[r.Choose("pw", len(pwPool))]
}

// NearMisses lists passwords that must not be confused with pw (modulo Canon).
func NearMisses(pw string, exhaustive bool) []string {
	var out []string
	add := func(s string) { out = append(out, s) }
	n := len(pw)
	if n <= 32 || exhaustive {
		for i := 0; i < n; i++ {
			add(pw[:i])
		}
	} else {
		for _, i := range []int{0, 1, n / 2, n - 2, n - 1, 63, 64, 65} {
			if i >= 0 && i < n {
				add(pw[:i])
			}
		}
	}
	for _, c := range []string{"\x00", " ", "a", "\n", "\xff"} {
		add(pw + c)
	}
	add(" " + pw)
	add(strings.ToUpper(pw))
	add(strings.ToLower(pw))
	add(strings.TrimSpace(pw))
	add(strings.TrimRight(pw, "\x00"))
	if n > 64 {
		h := sha256.Sum256([]byte(pw))
		add(string(h[:]))
	}
	if n > 0 {
		b := []byte(pw)
		b[n-1] ^= 1
		add(string(b))
		b = []byte(pw)
		b[0] ^= 0x20
		add(string(b))
	}
	return out
}
