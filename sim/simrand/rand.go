// Package simrand stands in for math/rand in the repository's own packages: the top-level
// functions draw from one generator that the harness reseeds from the run seed at the start
// of every run (the real ones are seeded randomly per process and would break replay).
package simrand

import (
	"math/rand"
	"sync"
)

type (
	Rand     = rand.Rand
	Source   = rand.Source
	Source64 = rand.Source64
	Zipf     = rand.Zipf
)

var (
	mu sync.Mutex
	g  = rand.New(rand.NewSource(1))
)

// Reseed is called by the harness at the start of every run.
func Reseed(seed uint64) { mu.Lock(); g = rand.New(rand.NewSource(int64(seed))); mu.Unlock() }

func New(src Source) *Rand        { return rand.New(src) }
func NewSource(seed int64) Source { return rand.NewSource(seed) }
func NewZipf(r *Rand, s float64, v float64, imax uint64) *Zipf { return rand.NewZipf(r, s, v, imax) }
func Seed(seed int64)             { mu.Lock(); g = rand.New(rand.NewSource(seed)); mu.Unlock() }

func Int() int                       { mu.Lock(); defer mu.Unlock(); return g.Int() }
func Intn(n int) int                 { mu.Lock(); defer mu.Unlock(); return g.Intn(n) }
func Int31() int32                   { mu.Lock(); defer mu.Unlock(); return g.Int31() }
func Int31n(n int32) int32           { mu.Lock(); defer mu.Unlock(); return g.Int31n(n) }
func Int63() int64                   { mu.Lock(); defer mu.Unlock(); return g.Int63() }
func Int63n(n int64) int64           { mu.Lock(); defer mu.Unlock(); return g.Int63n(n) }
func Uint32() uint32                 { mu.Lock(); defer mu.Unlock(); return g.Uint32() }
func Uint64() uint64                 { mu.Lock(); defer mu.Unlock(); return g.Uint64() }
func Float32() float32               { mu.Lock(); defer mu.Unlock(); return g.Float32() }
func Float64() float64               { mu.Lock(); defer mu.Unlock(); return g.Float64() }
func ExpFloat64() float64            { mu.Lock(); defer mu.Unlock(); return g.ExpFloat64() }
func NormFloat64() float64           { mu.Lock(); defer mu.Unlock(); return g.NormFloat64() }
func Perm(n int) []int               { mu.Lock(); defer mu.Unlock(); return g.Perm(n) }
func Shuffle(n int, swap func(i, j int)) { mu.Lock(); defer mu.Unlock(); g.Shuffle(n, swap) }
func Read(p []byte) (int, error)     { mu.Lock(); defer mu.Unlock(); return g.Read(p) }
