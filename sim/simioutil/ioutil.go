// Package simioutil stands in for io/ioutil in the repository's own packages: the file
// functions go to the simulated file system.
package simioutil

import (
	"io"
	"io/fs"
	"sort"

	"github.com/whawty/auth/zzverif/simfs"
)

var Discard = io.Discard

func ReadAll(r io.Reader) ([]byte, error)        { return io.ReadAll(r) }
func NopCloser(r io.Reader) io.ReadCloser        { return io.NopCloser(r) }
func ReadFile(name string) ([]byte, error)       { return simfs.ReadFile(name) }
func WriteFile(name string, data []byte, perm fs.FileMode) error {
	return simfs.WriteFile(name, data, perm)
}
func TempFile(dir, pattern string) (*simfs.File, error) { return simfs.CreateTemp(dir, pattern) }
func TempDir(dir, pattern string) (string, error)       { return simfs.MkdirTemp(dir, pattern) }

func ReadDir(dirname string) ([]fs.FileInfo, error) {
	ents, err := simfs.ReadDir(dirname)
	if err != nil {
		return nil, err
	}
	out := make([]fs.FileInfo, 0, len(ents))
	for _, e := range ents {
		fi, err := e.Info()
		if err != nil {
			return nil, err
		}
		out = append(out, fi)
	}
	sort.Slice(out, func(i, j int) bool { return out[i].Name() < out[j].Name() })
	return out, nil
}
