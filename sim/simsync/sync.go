// Package simsync stands in for package sync in the repository's own packages (import
// redirection by simgen). The unchanged tree only uses sync.WaitGroup, which is passed
// through (testing/synctest treats WaitGroup.Wait as durably blocking). The other types
// exist for changed trees: a real sync.Mutex is invisible to the simulator - a goroutine
// that parks at a scheduling point while holding one makes the next Lock block in a way
// synctest does not count as blocked, and the run hangs instead of being judged. Here
//
//   - Mutex / RWMutex are built on channels: a contended Lock blocks durably (the scheduler
//     sees a blocked goroutine, a lock cycle is reported as a wedge), Lock is a scheduling
//     point, and who gets a contended lock next is decided by the tape like every other
//     wake-up;
//   - Pool is a deterministic LIFO (the real one depends on which P a goroutine runs on);
//   - Map iterates in insertion order (sync.Map.Range order is random);
//   - package-level values are reset when a new simulated process boots (simrt.Epoch), as a
//     real restart would do.
package simsync

import (
	"sync"

	"github.com/whawty/auth/zzverif/simrt"
)

type (
	WaitGroup = sync.WaitGroup
	Locker    = sync.Locker
	Cond      = sync.Cond
)

func NewCond(l Locker) *Cond { return sync.NewCond(l) }

var initMu sync.Mutex // guards lazy initialisation only; never held across a park

// Mutex: capacity-1 channel, a token inside means "locked".
type Mutex struct {
	ch    chan struct{}
	epoch uint64
}

func (m *Mutex) get() chan struct{} {
	initMu.Lock()
	if m.ch == nil || m.epoch != simrt.Epoch() {
		m.ch = make(chan struct{}, 1)
		m.epoch = simrt.Epoch()
	}
	c := m.ch
	initMu.Unlock()
	return c
}

func (m *Mutex) Lock() {
	c := m.get()
	simrt.Yield("mutex-lock")
	select {
	case c <- struct{}{}:
		return
	default:
	}
	c <- struct{}{} // contended: durably blocked until an Unlock
	simrt.Yield("mutex-acquired")
}

func (m *Mutex) TryLock() bool {
	select {
	case m.get() <- struct{}{}:
		return true
	default:
		return false
	}
}

func (m *Mutex) Unlock() {
	select {
	case <-m.get():
	default:
		panic("sync: unlock of unlocked mutex")
	}
}

// RWMutex: readers share the writer lock through a counter.
type RWMutex struct {
	w       Mutex
	r       Mutex
	readers int
}

func (m *RWMutex) Lock()         { m.w.Lock() }
func (m *RWMutex) Unlock()       { m.w.Unlock() }
func (m *RWMutex) TryLock() bool { return m.w.TryLock() }
func (m *RWMutex) RLock() {
	m.r.Lock()
	m.readers++
	if m.readers == 1 {
		m.w.Lock()
	}
	m.r.Unlock()
}
func (m *RWMutex) RUnlock() {
	m.r.Lock()
	m.readers--
	if m.readers < 0 {
		panic("sync: RUnlock of unlocked RWMutex")
	}
	if m.readers == 0 {
		m.w.Unlock()
	}
	m.r.Unlock()
}
func (m *RWMutex) TryRLock() bool {
	if !m.r.TryLock() {
		return false
	}
	defer m.r.Unlock()
	if m.readers == 0 && !m.w.TryLock() {
		return false
	}
	m.readers++
	return true
}

type rlocker RWMutex

func (r *rlocker) Lock()           { (*RWMutex)(r).RLock() }
func (r *rlocker) Unlock()         { (*RWMutex)(r).RUnlock() }
func (m *RWMutex) RLocker() Locker { return (*rlocker)(m) }

// Once
type Once struct {
	m     Mutex
	done  bool
	epoch uint64
}

func (o *Once) Do(f func()) {
	o.m.Lock()
	defer o.m.Unlock()
	if o.done && o.epoch == simrt.Epoch() {
		return
	}
	o.epoch = simrt.Epoch()
	defer func() { o.done = true }()
	f()
}

func OnceFunc(f func()) func() {
	var o Once
	return func() { o.Do(f) }
}

func OnceValue[T any](f func() T) func() T {
	var o Once
	var v T
	return func() T { o.Do(func() { v = f() }); return v }
}

func OnceValues[T1, T2 any](f func() (T1, T2)) func() (T1, T2) {
	var o Once
	var a T1
	var b T2
	return func() (T1, T2) { o.Do(func() { a, b = f() }); return a, b }
}

// Pool: deterministic LIFO.
type Pool struct {
	New   func() any
	items []any
	epoch uint64
}

func (p *Pool) Get() any {
	initMu.Lock()
	if p.epoch != simrt.Epoch() {
		p.items, p.epoch = nil, simrt.Epoch()
	}
	var x any
	if n := len(p.items); n > 0 {
		x = p.items[n-1]
		p.items = p.items[:n-1]
	}
	initMu.Unlock()
	if x == nil && p.New != nil {
		x = p.New()
	}
	return x
}

func (p *Pool) Put(x any) {
	if x == nil {
		return
	}
	initMu.Lock()
	if p.epoch != simrt.Epoch() {
		p.items, p.epoch = nil, simrt.Epoch()
	}
	p.items = append(p.items, x)
	initMu.Unlock()
}

// Map: insertion-ordered.
type Map struct {
	keys  []any
	vals  map[any]any
	epoch uint64
}

func (m *Map) lock() {
	initMu.Lock()
	if m.vals == nil || m.epoch != simrt.Epoch() {
		m.keys, m.vals, m.epoch = nil, map[any]any{}, simrt.Epoch()
	}
}

func (m *Map) Load(k any) (any, bool) {
	m.lock()
	defer initMu.Unlock()
	v, ok := m.vals[k]
	return v, ok
}

func (m *Map) Store(k, v any) {
	m.lock()
	defer initMu.Unlock()
	if _, ok := m.vals[k]; !ok {
		m.keys = append(m.keys, k)
	}
	m.vals[k] = v
}

func (m *Map) LoadOrStore(k, v any) (any, bool) {
	m.lock()
	defer initMu.Unlock()
	if old, ok := m.vals[k]; ok {
		return old, true
	}
	m.keys = append(m.keys, k)
	m.vals[k] = v
	return v, false
}

func (m *Map) del(k any) {
	delete(m.vals, k)
	for i, x := range m.keys {
		if x == k {
			m.keys = append(m.keys[:i:i], m.keys[i+1:]...)
			break
		}
	}
}

func (m *Map) LoadAndDelete(k any) (any, bool) {
	m.lock()
	defer initMu.Unlock()
	v, ok := m.vals[k]
	if ok {
		m.del(k)
	}
	return v, ok
}

func (m *Map) Delete(k any) { m.LoadAndDelete(k) }

func (m *Map) Swap(k, v any) (any, bool) {
	m.lock()
	defer initMu.Unlock()
	old, ok := m.vals[k]
	if !ok {
		m.keys = append(m.keys, k)
	}
	m.vals[k] = v
	return old, ok
}

func (m *Map) CompareAndSwap(k, old, new any) bool {
	m.lock()
	defer initMu.Unlock()
	if v, ok := m.vals[k]; ok && v == old {
		m.vals[k] = new
		return true
	}
	return false
}

func (m *Map) CompareAndDelete(k, old any) bool {
	m.lock()
	defer initMu.Unlock()
	if v, ok := m.vals[k]; ok && v == old {
		m.del(k)
		return true
	}
	return false
}

func (m *Map) Range(f func(k, v any) bool) {
	m.lock()
	keys := append([]any(nil), m.keys...)
	initMu.Unlock()
	for _, k := range keys {
		v, ok := m.Load(k)
		if !ok {
			continue
		}
		if !f(k, v) {
			return
		}
	}
}

func (m *Map) Clear() {
	m.lock()
	m.keys, m.vals = nil, map[any]any{}
	initMu.Unlock()
}
