// Package simnet is the simulated transport of DESIGN.md 2.5: in-memory listeners and
// connections whose byte delivery, closes, resets and refusals are decided by the
// scheduler. The code under verification imports it under the local name "net".
package simnet

import (
	"errors"
	"fmt"
	"io"
	realnet "net"
	"os"
	"sync"
	"syscall"
	"time"
)

type (
	Conn     = realnet.Conn
	Listener = realnet.Listener
	Addr     = realnet.Addr
	OpError  = realnet.OpError
	Error    = realnet.Error
	IP       = realnet.IP
	TCPAddr  = realnet.TCPAddr
	UnixAddr = realnet.UnixAddr
)

var ErrClosed = realnet.ErrClosed

type addr struct{ network, s string }

func (a addr) Network() string { return a.network }
func (a addr) String() string  { return a.s }

// Net is one simulated network.
type Net struct {
	mu        sync.Mutex
	listeners map[string]*listener
	Conns     []*Pair
	Auto      bool // deliver written bytes immediately (network scheduling not under study)
	Refuse    map[string]syscall.Errno
	OnEvent   func(string)
	ManualFor func(target string) bool // connections to these targets get scheduler-controlled delivery even in Auto mode
	Gate      func()                   // called before every Read / Write of a server-side end (swarm option: network operations as scheduling points)
}

var Cur *Net

func New() *Net {
	return &Net{listeners: map[string]*listener{}, Refuse: map[string]syscall.Errno{}}
}

func (n *Net) event(format string, a ...any) {
	if n.OnEvent != nil {
		n.OnEvent(fmt.Sprintf(format, a...))
	}
}

type listener struct {
	net        *Net
	addr       addr
	backlog    []*End
	wake       chan struct{}
	closed     bool
	acceptErrs []syscall.Errno // injected: the next accept calls fail with these (EMFILE, ECONNABORTED, ...)
}

// half is one direction of a connection.
type half struct {
	inflight []byte // written, not yet delivered
	readable []byte // delivered, not yet read
	finSent  bool   // writer closed
	finSeen  bool   // EOF delivered to the reader
	reset    bool
	stalled  bool
}

// Pair is a connection: C is the dialing end, S the accepted end.
type Pair struct {
	ID     int
	C, S   *End
	c2s    half
	s2c    half
	net    *Net
	Target string
	Manual bool
}

// End implements net.Conn.
type End struct {
	p        *Pair
	client   bool
	wake     chan struct{}
	closed   bool
	rdl, wdl time.Time
	BytesIn  []byte // everything this end has read (harness observation)
}

func (e *End) in() *half {
	if e.client {
		return &e.p.s2c
	}
	return &e.p.c2s
}
func (e *End) out() *half {
	if e.client {
		return &e.p.c2s
	}
	return &e.p.s2c
}
func (e *End) peer() *End {
	if e.client {
		return e.p.S
	}
	return e.p.C
}

func (e *End) poke() {
	select {
	case e.wake <- struct{}{}:
	default:
	}
}

type timeoutError struct{}

func (timeoutError) Error() string   { return "i/o timeout" }
func (timeoutError) Timeout() bool   { return true }
func (timeoutError) Temporary() bool { return true }
func (timeoutError) Is(err error) bool { return err == os.ErrDeadlineExceeded }

func (e *End) opErr(op string, err error) error {
	return &OpError{Op: op, Net: e.p.net.netName(e.p.Target), Addr: e.RemoteAddr(), Err: err}
}

func (n *Net) netName(target string) string {
	if len(target) > 0 && target[0] == '/' {
		return "unix"
	}
	return "tcp"
}

func (e *End) Read(b []byte) (int, error) {
	n := e.p.net
	if g := n.Gate; g != nil && !e.client {
		g()
	}
	for {
		n.mu.Lock()
		h := e.in()
		switch {
		case e.closed:
			n.mu.Unlock()
			return 0, e.opErr("read", ErrClosed)
		case h.reset:
			n.mu.Unlock()
			return 0, e.opErr("read", syscall.ECONNRESET)
		case len(h.readable) > 0:
			k := copy(b, h.readable)
			h.readable = h.readable[k:]
			e.BytesIn = append(e.BytesIn, b[:k]...)
			n.mu.Unlock()
			return k, nil
		case h.finSeen:
			n.mu.Unlock()
			return 0, io.EOF
		case len(b) == 0:
			n.mu.Unlock()
			return 0, nil
		}
		dl := e.rdl
		n.mu.Unlock()
		if dl.IsZero() {
			<-e.wake
			continue
		}
		d := time.Until(dl)
		if d <= 0 {
			return 0, e.opErr("read", timeoutError{})
		}
		t := time.NewTimer(d)
		select {
		case <-e.wake:
			t.Stop()
		case <-t.C:
			return 0, e.opErr("read", timeoutError{})
		}
	}
}

func (e *End) Write(b []byte) (int, error) {
	n := e.p.net
	if g := n.Gate; g != nil && !e.client {
		g()
	}
	n.mu.Lock()
	defer n.mu.Unlock()
	h := e.out()
	if e.closed {
		return 0, e.opErr("write", ErrClosed)
	}
	if h.reset || e.in().reset {
		return 0, e.opErr("write", syscall.ECONNRESET)
	}
	if !e.wdl.IsZero() && !time.Now().Before(e.wdl) {
		return 0, e.opErr("write", timeoutError{})
	}
	if e.peer().closed {
		return 0, e.opErr("write", syscall.EPIPE)
	}
	if n.Auto && !h.stalled && !(e.p.Manual && e.client) {
		h.readable = append(h.readable, b...)
		e.peer().poke()
	} else {
		h.inflight = append(h.inflight, b...)
	}
	return len(b), nil
}

func (e *End) Close() error {
	n := e.p.net
	n.mu.Lock()
	defer n.mu.Unlock()
	if e.closed {
		return e.opErr("close", ErrClosed)
	}
	e.closed = true
	h := e.out()
	h.finSent = true
	if n.Auto && !h.stalled && !(e.p.Manual && e.client) {
		h.readable = append(h.readable, h.inflight...)
		h.inflight = nil
		h.finSeen = true
		e.peer().poke()
	}
	e.poke()
	n.event("conn%d %s closed", e.p.ID, e.side())
	return nil
}

// HalfClose is shutdown(SHUT_WR): the peer will see EOF, this end keeps reading.
func (e *End) HalfClose() {
	n := e.p.net
	n.mu.Lock()
	defer n.mu.Unlock()
	h := e.out()
	h.finSent = true
	if n.Auto && !h.stalled {
		h.readable = append(h.readable, h.inflight...)
		h.inflight = nil
		h.finSeen = true
		e.peer().poke()
	}
}

func (e *End) side() string {
	if e.client {
		return "client"
	}
	return "server"
}

// peerName: TCP peers have distinct addresses; a unix-domain client that did not bind - all of
// them, in practice - has none, and every accepted connection reports the same "@".
func (e *End) peerName() string {
	if e.p.net.netName(e.p.Target) == "unix" {
		return "@"
	}
	return fmt.Sprintf("127.0.0.1:%d", 40000+e.p.ID)
}

func (e *End) LocalAddr() Addr {
	if e.client {
		return addr{e.p.net.netName(e.p.Target), e.peerName()}
	}
	return addr{e.p.net.netName(e.p.Target), e.p.Target}
}
func (e *End) RemoteAddr() Addr {
	if e.client {
		return addr{e.p.net.netName(e.p.Target), e.p.Target}
	}
	return addr{e.p.net.netName(e.p.Target), e.peerName()}
}
func (e *End) SetDeadline(t time.Time) error      { e.rdl, e.wdl = t, t; e.poke(); return nil }
func (e *End) SetReadDeadline(t time.Time) error  { e.rdl = t; e.poke(); return nil }
func (e *End) SetWriteDeadline(t time.Time) error { e.wdl = t; return nil }

// TCPConn adds the methods the agent calls on accepted TCP connections.
type TCPConn struct{ *End }

func (c *TCPConn) SetKeepAlive(bool) error                { return nil }
func (c *TCPConn) SetKeepAlivePeriod(time.Duration) error { return nil }
func (c *TCPConn) SetNoDelay(bool) error                  { return nil }
func (c *TCPConn) SetLinger(int) error                    { return nil }
func (c *TCPConn) CloseRead() error                       { return nil }
func (c *TCPConn) CloseWrite() error                      { return nil }

// ---------------------------------------------------------------------------------
// scheduler-side controls

// Deliver makes up to k in-flight bytes readable for the given end's peer (dir: the end
// that WROTE them). k <= 0: everything. Returns the number delivered.
func (p *Pair) Deliver(fromClient bool, k int) int {
	n := p.net
	n.mu.Lock()
	defer n.mu.Unlock()
	h, rd := &p.s2c, p.C
	if fromClient {
		h, rd = &p.c2s, p.S
	}
	if k <= 0 || k > len(h.inflight) {
		k = len(h.inflight)
	}
	h.readable = append(h.readable, h.inflight[:k]...)
	h.inflight = h.inflight[k:]
	if k > 0 {
		rd.poke()
	}
	return k
}

// DeliverFin lets the reader see EOF once the writer has closed and everything in flight
// was delivered. Reports whether EOF became visible.
func (p *Pair) DeliverFin(fromClient bool) bool {
	n := p.net
	n.mu.Lock()
	defer n.mu.Unlock()
	h, rd := &p.s2c, p.C
	if fromClient {
		h, rd = &p.c2s, p.S
	}
	if !h.finSent || len(h.inflight) > 0 || h.finSeen {
		return false
	}
	h.finSeen = true
	rd.poke()
	return true
}

// Reset aborts the connection in both directions.
func (p *Pair) Reset() {
	n := p.net
	n.mu.Lock()
	defer n.mu.Unlock()
	p.c2s.reset, p.s2c.reset = true, true
	p.C.poke()
	p.S.poke()
}

// Pending reports in-flight byte counts and close state (c->s, s->c).
func (p *Pair) Pending() (c2s, s2c int, cFin, sFin bool) {
	n := p.net
	n.mu.Lock()
	defer n.mu.Unlock()
	return len(p.c2s.inflight), len(p.s2c.inflight), p.c2s.finSent && !p.c2s.finSeen, p.s2c.finSent && !p.s2c.finSeen
}

// ServerClosed reports whether the accepted end has closed the connection.
func (p *Pair) ServerClosed() bool {
	n := p.net
	n.mu.Lock()
	defer n.mu.Unlock()
	return p.S.closed
}

// ServerOutput returns everything the server end has written so far (delivered or not).
func (p *Pair) ServerOutput() []byte {
	n := p.net
	n.mu.Lock()
	defer n.mu.Unlock()
	out := append([]byte(nil), p.C.BytesIn...)
	out = append(out, p.s2c.readable...)
	out = append(out, p.s2c.inflight...)
	return out
}

// ---------------------------------------------------------------------------------
// the net mirror

func Listen(network, address string) (Listener, error) {
	n := Cur
	n.mu.Lock()
	defer n.mu.Unlock()
	if e, ok := n.Refuse["listen:"+address]; ok {
		return nil, &OpError{Op: "listen", Net: network, Addr: addr{network, address}, Err: e}
	}
	if _, ok := n.listeners[address]; ok {
		return nil, &OpError{Op: "listen", Net: network, Addr: addr{network, address}, Err: syscall.EADDRINUSE}
	}
	l := &listener{net: n, addr: addr{network, address}, wake: make(chan struct{}, 1)}
	n.listeners[address] = l
	n.event("listen %s %s", network, address)
	switch network {
	case "unix":
		return &UnixListener{l}, nil
	default:
		return &TCPListener{l}, nil
	}
}

func (l *listener) accept() (*End, error) {
	for {
		l.net.mu.Lock()
		if l.closed {
			l.net.mu.Unlock()
			return nil, &OpError{Op: "accept", Net: l.addr.network, Addr: l.addr, Err: ErrClosed}
		}
		if len(l.acceptErrs) > 0 {
			e := l.acceptErrs[0]
			l.acceptErrs = l.acceptErrs[1:]
			l.net.mu.Unlock()
			return nil, &OpError{Op: "accept", Net: l.addr.network, Addr: l.addr, Err: e}
		}
		if len(l.backlog) > 0 {
			e := l.backlog[0]
			l.backlog = l.backlog[1:]
			l.net.mu.Unlock()
			return e, nil
		}
		l.net.mu.Unlock()
		<-l.wake
	}
}

func (l *listener) close() error {
	l.net.mu.Lock()
	defer l.net.mu.Unlock()
	if l.closed {
		return &OpError{Op: "close", Net: l.addr.network, Addr: l.addr, Err: ErrClosed}
	}
	l.closed = true
	delete(l.net.listeners, l.addr.s)
	select {
	case l.wake <- struct{}{}:
	default:
	}
	return nil
}

type UnixListener struct{ l *listener }

func (u *UnixListener) Accept() (Conn, error) {
	e, err := u.l.accept()
	if err != nil {
		return nil, err
	}
	return e, nil
}
func (u *UnixListener) Close() error                { return u.l.close() }
func (u *UnixListener) Addr() Addr                  { return u.l.addr }
func (u *UnixListener) SetUnlinkOnClose(bool)       {}
func (u *UnixListener) SetDeadline(time.Time) error { return nil }

type TCPListener struct{ l *listener }

func (t *TCPListener) Accept() (Conn, error) {
	e, err := t.l.accept()
	if err != nil {
		return nil, err
	}
	return &TCPConn{e}, nil
}
func (t *TCPListener) AcceptTCP() (*TCPConn, error) {
	e, err := t.l.accept()
	if err != nil {
		return nil, err
	}
	return &TCPConn{e}, nil
}
func (t *TCPListener) Close() error                { return t.l.close() }
func (t *TCPListener) Addr() Addr                  { return t.l.addr }
func (t *TCPListener) SetDeadline(time.Time) error { return nil }

// DialPair connects to address and returns the pair (harness-side dial).
func (n *Net) DialPair(address string) (*Pair, error) {
	n.mu.Lock()
	defer n.mu.Unlock()
	network := n.netName(address)
	if e, ok := n.Refuse[address]; ok {
		return nil, &OpError{Op: "dial", Net: network, Addr: addr{network, address}, Err: e}
	}
	l, ok := n.listeners[address]
	if !ok || l.closed {
		e := syscall.ECONNREFUSED
		if network == "unix" {
			e = syscall.ENOENT
		}
		return nil, &OpError{Op: "dial", Net: network, Addr: addr{network, address}, Err: e}
	}
	p := &Pair{ID: len(n.Conns), net: n, Target: address}
	p.Manual = n.ManualFor != nil && n.ManualFor(address)
	p.C = &End{p: p, client: true, wake: make(chan struct{}, 1)}
	p.S = &End{p: p, wake: make(chan struct{}, 1)}
	n.Conns = append(n.Conns, p)
	l.backlog = append(l.backlog, p.S)
	select {
	case l.wake <- struct{}{}:
	default:
	}
	n.event("conn%d dial %s", p.ID, address)
	return p, nil
}

func Dial(network, address string) (Conn, error) {
	p, err := Cur.DialPair(address)
	if err != nil {
		return nil, err
	}
	return p.C, nil
}

func DialTimeout(network, address string, d time.Duration) (Conn, error) { return Dial(network, address) }

func SplitHostPort(hp string) (string, string, error) { return realnet.SplitHostPort(hp) }
func JoinHostPort(h, p string) string                 { return realnet.JoinHostPort(h, p) }
func ParseIP(s string) IP                             { return realnet.ParseIP(s) }

var _ = errors.New

// ManualPending lists the manually delivered connections that have client bytes (or a close)
// waiting for the scheduler.
func (n *Net) ManualPending() []*Pair {
	n.mu.Lock()
	defer n.mu.Unlock()
	var out []*Pair
	for _, p := range n.Conns {
		if p.Manual && (len(p.c2s.inflight) > 0 || (p.c2s.finSent && !p.c2s.finSeen)) {
			out = append(out, p)
		}
	}
	return out
}

// InjectAcceptError makes the next Accept on address fail once with errno (a transient
// condition such as EMFILE); reports whether such a listener exists.
func (n *Net) InjectAcceptError(address string, errno syscall.Errno) bool {
	n.mu.Lock()
	defer n.mu.Unlock()
	l, ok := n.listeners[address]
	if !ok || l.closed {
		return false
	}
	l.acceptErrs = append(l.acceptErrs, errno)
	select {
	case l.wake <- struct{}{}:
	default:
	}
	return true
}

// Listening reports whether address still has an open listener.
func (n *Net) Listening(address string) bool {
	n.mu.Lock()
	defer n.mu.Unlock()
	l, ok := n.listeners[address]
	return ok && !l.closed
}
