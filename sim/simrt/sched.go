package simrt

// The baton scheduler (DESIGN.md 2.3) and the helpers called by rewritten selects.
//
// A goroutine of the code under test that owns a rewritten select becomes a *service
// loop* when it first reaches the select while the harness has an adoption window open
// (the harness opens it around NewStore). From then on every pass through the select
// parks the goroutine (a durable block on a private channel) until the scheduler --
// the bubble's root goroutine -- releases it with a probe order drawn from the tape.
// Goroutines that are not service loops get the identity order at once (a legal
// behaviour of select, deterministic, no decision spent).

import (
	"bytes"
	"runtime"
	"sort"
	"strconv"
	"strings"
	"sync"
	"sync/atomic"
)

type Parked struct {
	Name    string
	Site    string
	N       int
	Idle    bool // probed, nothing was ready; re-enabled after the next step that changes anything
	Yield   bool // parked at a yield point (channel operation / goroutine start), not at a select
	release chan []int
}

type Sched struct {
	mu      sync.Mutex
	byGoid  map[int64]string
	adopt   string
	parked  map[string]*Parked
	OnPick  func(name, site string, picked int)
	Picks   int
	Blocked int
	NoYield bool // yield points inactive (only rewritten selects are scheduling points)
	goSeq   int
}

// S is the active scheduler; nil = simulator inactive (the code behaves as written).
var S *Sched

func NewSched() *Sched {
	return &Sched{byGoid: map[int64]string{}, parked: map[string]*Parked{}}
}

func goid() int64 {
	var buf [64]byte
	b := buf[:runtime.Stack(buf[:], false)]
	b = bytes.TrimPrefix(b, []byte("goroutine "))
	i := bytes.IndexByte(b, ' ')
	n, _ := strconv.ParseInt(string(b[:i]), 10, 64)
	return n
}

// Adopt opens an adoption window: goroutines reaching a rewritten select for the first
// time are named prefix+"."+site and become service loops. EndAdopt closes it.
func (s *Sched) Adopt(prefix string) { s.mu.Lock(); s.adopt = prefix; s.mu.Unlock() }
func (s *Sched) EndAdopt()           { s.mu.Lock(); s.adopt = ""; s.mu.Unlock() }

// Order is called by generated code before probing the cases of a select.
func Order(site string, n int) []int {
	s := S
	if s == nil {
		return nil
	}
	id := goid()
	s.mu.Lock()
	name, known := s.byGoid[id]
	if !known {
		if s.adopt == "" {
			s.mu.Unlock()
			return identity(n)
		}
		name = s.adopt + "." + site
		if _, dup := s.parked[name]; dup {
			s.mu.Unlock()
			panic("simrt: two goroutines want the service-loop name " + name)
		}
		s.byGoid[id] = name
	} else if len(name) > 0 && name[0] == '~' {
		// a service goroutine registered at its start: from its first select on it goes by
		// the service-loop name
		prefix := name[1:]
		if i := strings.IndexByte(prefix, '~'); i >= 0 {
			prefix = prefix[:i]
		}
		nn := prefix + "." + site
		if _, dup := s.parked[nn]; dup {
			nn = name[1:] // two loops at one site: keep the unique start name
		}
		if old := s.parked[name]; old != nil {
			delete(s.parked, name)
			old.Name = nn
			s.parked[nn] = old
		}
		s.byGoid[id] = nn
		name = nn
	}
	p := s.parked[name]
	if p == nil {
		p = &Parked{Name: name, release: make(chan []int)}
		s.parked[name] = p
	}
	p.Site, p.N, p.Yield = site, n, false
	s.mu.Unlock()
	return <-p.release // durable block: the scheduler decides when this goroutine continues
}

func identity(n int) []int {
	o := make([]int, n)
	for i := range o {
		o[i] = i
	}
	return o
}

// Retry is called when no case was ready. A service loop re-parks as idle (it polls
// under scheduler control instead of blocking in the real select, so that its wake-up is
// a scheduling decision too); everything else falls into the original blocking select.
func Retry(site string, hasDefault bool) bool {
	s := S
	if s == nil || hasDefault {
		return false
	}
	id := goid()
	s.mu.Lock()
	defer s.mu.Unlock()
	name, known := s.byGoid[id]
	if !known {
		return false
	}
	if p := s.parked[name]; p != nil {
		p.Idle = true
	}
	return true
}

// Picked reports which case fired.
func Picked(site string, f int) {
	s := S
	if s == nil {
		return
	}
	id := goid()
	s.mu.Lock()
	name, known := s.byGoid[id]
	cb := s.OnPick
	if known {
		s.Picks++
	}
	s.mu.Unlock()
	if known && cb != nil {
		cb(name, site, f)
	}
}

// Runnable lists the parked service loops that may be released, sorted by name.
// Must be called at quiescence (after synctest.Wait).
func (s *Sched) Runnable() []*Parked {
	s.mu.Lock()
	defer s.mu.Unlock()
	var out []*Parked
	for _, p := range s.parked {
		if !p.Idle && p.N > 0 {
			out = append(out, p)
		}
	}
	sort.Slice(out, func(i, j int) bool { return out[i].Name < out[j].Name })
	return out
}

// All lists every service loop (idle or not), sorted.
func (s *Sched) All() []*Parked {
	s.mu.Lock()
	defer s.mu.Unlock()
	var out []*Parked
	for _, p := range s.parked {
		out = append(out, p)
	}
	sort.Slice(out, func(i, j int) bool { return out[i].Name < out[j].Name })
	return out
}

// WakeIdle makes idle service loops eligible again (something changed).
func (s *Sched) WakeIdle() {
	s.mu.Lock()
	for _, p := range s.parked {
		p.Idle = false
	}
	s.mu.Unlock()
}

// Release lets p run one pass of its select with the given probe order.
func (s *Sched) Release(p *Parked, order []int) {
	s.mu.Lock()
	p.N = 0 // not parked any more until it calls Order again
	s.mu.Unlock()
	p.release <- order
}

// Perm draws a permutation of n from choose (Fisher-Yates; all-zero choices = identity).
func Perm(n int, choose func(kind string, n int) int) []int {
	o := identity(n)
	for i := 0; i < n-1; i++ {
		j := i + choose("probe-order", n-i)
		o[i], o[j] = o[j], o[i]
	}
	return o
}

// ---------------------------------------------------------------------------------
// generic helpers used by the generated probes

type Holder[T any] struct {
	V  T
	OK bool
}

func NewHolder[T any](c <-chan T) *Holder[T] { return &Holder[T]{} }

// Try is a single-case non-blocking receive.
func (h *Holder[T]) Try(c <-chan T) bool {
	select {
	case h.V, h.OK = <-c:
		return true
	default:
		return false
	}
}

// TrySend is a single-case non-blocking send.
func TrySend[T any](c chan<- T, v T) bool {
	select {
	case c <- v:
		return true
	default:
		return false
	}
}

// ---------------------------------------------------------------------------------
// yield points inserted by simgen pass 1

// Register makes the calling goroutine known to the scheduler under name (harness client
// goroutines, accept loops): from then on it parks at every yield point.
func (s *Sched) Register(name string) {
	id := goid()
	s.mu.Lock()
	s.byGoid[id] = name
	s.mu.Unlock()
}

// Yield is called before a channel operation outside a select. A goroutine the scheduler
// knows parks here until it is released; any other goroutine continues at once.
func Yield(site string) {
	s := S
	if s == nil {
		return
	}
	id := goid()
	s.mu.Lock()
	name, known := s.byGoid[id]
	if !known || s.NoYield {
		s.mu.Unlock()
		return
	}
	p := s.parked[name]
	if p == nil {
		p = &Parked{Name: name, release: make(chan []int)}
		s.parked[name] = p
	}
	p.Site, p.N, p.Idle, p.Yield = site, 1, false, true
	s.mu.Unlock()
	<-p.release
}

// LibHook is installed by the library-level harness while two callers of one store are being
// interleaved; LibYield (inserted at every statement boundary of the hasher files of package
// store) hands control to it. Nil - the normal case, and always at agent level - means no-op.
var LibHook func(site string)

func LibYield(site string) {
	if h := LibHook; h != nil {
		h(site)
	}
}

// NextGoID is evaluated in the parent at a `go func(){...}()` statement: a positive id if
// the parent is known to the scheduler (its children are scheduled too), else 0.
func NextGoID(site string) int {
	s := S
	if s == nil {
		return 0
	}
	id := goid()
	s.mu.Lock()
	defer s.mu.Unlock()
	if s.NoYield {
		return 0
	}
	if _, known := s.byGoid[id]; !known {
		if s.adopt == "" {
			return 0
		}
		// started while an instance boots (adoption window): a service goroutine of the code
		// under test. It is known to the scheduler from its first statement on, but does not
		// wait for a release there (the boot has to get all of them to their loops); negative id.
		s.goSeq++
		return -s.goSeq
	}
	s.goSeq++
	return s.goSeq
}

// YieldStart is the first statement of a goroutine started from a function literal.
func YieldStart(site string, gid int) {
	s := S
	if s == nil || gid == 0 {
		return
	}
	s.mu.Lock()
	if gid < 0 {
		prefix := s.adopt
		if prefix == "" {
			prefix = "svc"
		}
		// provisional name; a goroutine that reaches a rewritten select is renamed to
		// prefix.site-of-the-select there (the name the harness knows service loops by)
		s.byGoid[goid()] = "~" + prefix + "~" + site + "#" + strconv.Itoa(-gid)
		s.mu.Unlock()
		return
	}
	name := site + "#" + strconv.Itoa(gid)
	s.byGoid[goid()] = name
	p := &Parked{Name: name, release: make(chan []int), Site: site, N: 1, Yield: true}
	s.parked[name] = p
	s.mu.Unlock()
	<-p.release
}

// Forget drops a goroutine (it finished); optional.
func (s *Sched) Forget(name string) {
	s.mu.Lock()
	delete(s.parked, name)
	s.mu.Unlock()
}

// Epoch identifies the simulated process generation: package-level simulator-owned state in
// the code under test (simsync) is reset when it changes, as a restart of a real process
// would do. The harness bumps it at the start of every run (instances booted within one run
// share package-level state, as listeners of one real process do).
var epoch atomic.Uint64

func Epoch() uint64 { return epoch.Load() }
func NextEpoch()    { epoch.Add(1) }
