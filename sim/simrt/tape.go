// Package simrt is the simulator runtime of DESIGN.md 2.3: the decision tape, the event
// log, the baton scheduler for goroutines parked at rewritten selects, and small helpers
// the generated code calls.
package simrt

import (
	"crypto/sha256"
	"encoding/hex"
	"fmt"
	"strings"
)

// ---------------------------------------------------------------------------------
// PRNG: xoshiro256** seeded through splitmix64. Every decision of a run comes from here
// (search mode) or from a recorded tape (replay / minimisation).

type rng struct{ s [4]uint64 }

func splitmix(x *uint64) uint64 {
	*x += 0x9e3779b97f4a7c15
	z := *x
	z = (z ^ (z >> 30)) * 0xbf58476d1ce4e5b9
	z = (z ^ (z >> 27)) * 0x94d049bb133111eb
	return z ^ (z >> 31)
}

func newRng(seed uint64) *rng {
	r := &rng{}
	x := seed
	for i := range r.s {
		r.s[i] = splitmix(&x)
	}
	return r
}

func rotl(x uint64, k uint) uint64 { return (x << k) | (x >> (64 - k)) }

func (r *rng) next() uint64 {
	s := &r.s
	res := rotl(s[1]*5, 7) * 9
	t := s[1] << 17
	s[2] ^= s[0]
	s[3] ^= s[1]
	s[1] ^= s[2]
	s[0] ^= s[3]
	s[2] ^= t
	s[3] = rotl(s[3], 45)
	return res
}

// HashSeed derives a run seed from VERIF_SEED, the property id and the run index.
func HashSeed(base uint64, prop string, idx int) uint64 {
	h := sha256.Sum256([]byte(fmt.Sprintf("%d/%s/%d", base, prop, idx)))
	var v uint64
	for i := 0; i < 8; i++ {
		v = v<<8 | uint64(h[i])
	}
	return v
}

// Decision is one recorded choice.
type Decision struct {
	Kind string `json:"k"`
	N    int    `json:"n"`
	V    int    `json:"v"`
}

// Tape is the source of every decision of a run. Alternative 0 of every decision is the
// boring one, so a truncated or zeroed tape still yields a valid (quiet) run.
type Tape struct {
	Seed   uint64
	r      *rng
	Replay []int // replay mode: values (interpreted modulo n); beyond the end: 0
	replay bool
	strict []Decision // exact replay: kinds and n must match
	pos    int
	Rec    []Decision
	Diverged string
	streams  map[string][]int
	spos     map[string]int
}

func NewTape(seed uint64) *Tape { return &Tape{Seed: seed, r: newRng(seed)} }

// NewReplayTape replays values; they are taken modulo n, so every tape is a valid run.
func NewReplayTape(seed uint64, vals []int) *Tape {
	return &Tape{Seed: seed, Replay: vals, replay: true}
}

// NewStrictTape replays recorded decisions and notes any divergence in kind or n.
func NewStrictTape(seed uint64, d []Decision) *Tape {
	vals := make([]int, len(d))
	for i := range d {
		vals[i] = d[i].V
	}
	return &Tape{Seed: seed, Replay: vals, replay: true, strict: d}
}

// NewStreamTape replays per-kind streams: the k-th decision of kind K takes the k-th value
// of streams[K] (modulo n; 0 when the stream is exhausted). Replaying the streams built
// from a recorded run reproduces it exactly; editing one stream leaves all other kinds
// aligned, which is what makes shrinking effective.
func NewStreamTape(seed uint64, streams map[string][]int) *Tape {
	return &Tape{Seed: seed, replay: true, streams: streams, spos: map[string]int{}}
}

// Streams groups recorded decisions by kind, in order.
func Streams(d []Decision) map[string][]int {
	m := map[string][]int{}
	for _, x := range d {
		m[x.Kind] = append(m[x.Kind], x.V)
	}
	return m
}

// Choose returns a value in [0,n).
func (t *Tape) Choose(kind string, n int) int {
	if n <= 0 {
		panic("simrt: Choose with n <= 0 (" + kind + ")")
	}
	var v int
	if t.streams != nil {
		st := t.streams[kind]
		if i := t.spos[kind]; i < len(st) {
			v = st[i] % n
			if v < 0 {
				v = -v
			}
		}
		t.spos[kind]++
		t.pos++
		t.Rec = append(t.Rec, Decision{kind, n, v})
		return v
	}
	if t.replay {
		if t.pos < len(t.Replay) {
			v = t.Replay[t.pos] % n
			if v < 0 {
				v = -v
			}
			if t.strict != nil && t.Diverged == "" {
				d := t.strict[t.pos]
				if d.Kind != kind || d.N != n {
					t.Diverged = fmt.Sprintf("decision %d: recorded %s/%d, run asks %s/%d", t.pos, d.Kind, d.N, kind, n)
				}
			}
		}
	} else if n > 1 {
		v = int(t.r.next() % uint64(n))
	}
	t.pos++
	t.Rec = append(t.Rec, Decision{kind, n, v})
	return v
}

// Bool is Choose(kind, 2) == 1 with probability num/den in search mode; on replay the
// recorded value decides. 0 (false) is the boring alternative.
func (t *Tape) Chance(kind string, num, den int) bool {
	if den <= 0 || num <= 0 {
		t.Choose(kind, 1)
		return false
	}
	return t.Choose(kind, den) >= den-num
}

// Values returns the recorded values.
func (t *Tape) Values() []int {
	out := make([]int, len(t.Rec))
	for i, d := range t.Rec {
		out[i] = d.V
	}
	return out
}

// Pos is the number of decisions taken so far.
func (t *Tape) Pos() int { return t.pos }

// ---------------------------------------------------------------------------------
// Event log: human-readable, deterministic, hashed for replay comparison.

type Log struct {
	Lines []string
	h     [32]byte
	Max   int
	n     int
}

func (l *Log) Printf(format string, a ...any) {
	s := fmt.Sprintf(format, a...)
	x := sha256.New()
	x.Write(l.h[:])
	x.Write([]byte(s))
	copy(l.h[:], x.Sum(nil))
	l.n++
	if l.Max == 0 || len(l.Lines) < l.Max {
		l.Lines = append(l.Lines, s)
	} else if len(l.Lines) == l.Max {
		l.Lines = append(l.Lines, "... (log truncated; hash covers everything)")
	}
}

func (l *Log) Hash() string { return hex.EncodeToString(l.h[:8]) }
func (l *Log) Len() int     { return l.n }
func (l *Log) Text() string { return strings.Join(l.Lines, "\n") }

// Q quotes a byte string compactly for logs.
func Q(s string) string {
	if len(s) > 48 {
		h := sha256.Sum256([]byte(s))
		return fmt.Sprintf("%q...(%dB,%s)", s[:24], len(s), hex.EncodeToString(h[:4]))
	}
	return fmt.Sprintf("%q", s)
}
