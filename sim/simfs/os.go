package simfs

// The mirror of package os: the names the code under verification uses (and a wider set
// so that realistic edits still build), operating on Cur.

import (
	"errors"
	"io"
	"io/fs"
	realos "os"
	"sort"
	"strconv"
	"strings"
	"syscall"
	"time"
)

const (
	O_RDONLY = realos.O_RDONLY
	O_WRONLY = realos.O_WRONLY
	O_RDWR   = realos.O_RDWR
	O_APPEND = realos.O_APPEND
	O_CREATE = realos.O_CREATE
	O_EXCL   = realos.O_EXCL
	O_SYNC   = realos.O_SYNC
	O_TRUNC  = realos.O_TRUNC

	ModeDir        = fs.ModeDir
	ModeAppend     = fs.ModeAppend
	ModeExclusive  = fs.ModeExclusive
	ModeTemporary  = fs.ModeTemporary
	ModeSymlink    = fs.ModeSymlink
	ModeDevice     = fs.ModeDevice
	ModeNamedPipe  = fs.ModeNamedPipe
	ModeSocket     = fs.ModeSocket
	ModeSetuid     = fs.ModeSetuid
	ModeSetgid     = fs.ModeSetgid
	ModeCharDevice = fs.ModeCharDevice
	ModeSticky     = fs.ModeSticky
	ModeIrregular  = fs.ModeIrregular
	ModeType       = fs.ModeType
	ModePerm       = fs.ModePerm

	PathSeparator     = '/'
	PathListSeparator = ':'
	DevNull           = "/dev/null"

	SEEK_SET = 0
	SEEK_CUR = 1
	SEEK_END = 2
)

type (
	FileInfo     = fs.FileInfo
	FileMode     = fs.FileMode
	DirEntry     = fs.DirEntry
	PathError    = fs.PathError
	LinkError    = realos.LinkError
	SyscallError = realos.SyscallError
	Signal       = realos.Signal
)

var (
	ErrInvalid          = fs.ErrInvalid
	ErrPermission       = fs.ErrPermission
	ErrExist            = fs.ErrExist
	ErrNotExist         = fs.ErrNotExist
	ErrClosed           = fs.ErrClosed
	ErrDeadlineExceeded = realos.ErrDeadlineExceeded
	ErrNoDeadline       = realos.ErrNoDeadline
	ErrProcessDone      = realos.ErrProcessDone

	Interrupt Signal = realos.Interrupt
	Kill      Signal = realos.Kill

	// Args is os.Args for the simulated process; the harness sets it.
	Args = []string{"whawty-auth"}

	// Env is the simulated environment.
	Env = map[string]string{}

	// StdoutSink / StderrSink receive what the simulated process prints.
	StdoutSink io.Writer = io.Discard
	StderrSink io.Writer = io.Discard

	Stdin  = &File{std: 1, name: "/dev/stdin"}
	Stdout = &File{std: 2, name: "/dev/stdout"}
	Stderr = &File{std: 3, name: "/dev/stderr"}

	// ExitHook is called by Exit; the harness overrides it.
	ExitHook = func(code int) { panic("simfs: os.Exit(" + strconv.Itoa(code) + ")") }
)

func IsNotExist(err error) bool   { return realos.IsNotExist(err) }
func IsExist(err error) bool      { return realos.IsExist(err) }
func IsPermission(err error) bool { return realos.IsPermission(err) }
func IsTimeout(err error) bool    { return realos.IsTimeout(err) }
func IsPathSeparator(c uint8) bool { return c == '/' }
func NewSyscallError(s string, err error) error { return realos.NewSyscallError(s, err) }
func SameFile(a, b FileInfo) bool {
	x, ok1 := a.(*fileInfo)
	y, ok2 := b.(*fileInfo)
	return ok1 && ok2 && x.ino == y.ino
}

func LookupEnv(k string) (string, bool) { v, ok := Env[k]; return v, ok }
func Getenv(k string) string            { return Env[k] }
func Setenv(k, v string) error          { Env[k] = v; return nil }
func Unsetenv(k string) error           { delete(Env, k); return nil }
func Clearenv()                         { Env = map[string]string{} }
func ExpandEnv(s string) string         { return realos.Expand(s, Getenv) }
func Expand(s string, m func(string) string) string { return realos.Expand(s, m) }
func Environ() []string {
	var out []string
	for k, v := range Env {
		out = append(out, k+"="+v)
	}
	sort.Strings(out)
	return out
}
func Exit(code int)              { ExitHook(code) }
func Getpid() int                { return 4242 }
func Getppid() int               { return 1 }
func Getuid() int                { return 0 }
func Geteuid() int               { return 0 }
func Getgid() int                { return 0 }
func Getegid() int               { return 0 }
func Hostname() (string, error)  { return "simhost", nil }
func TempDir() string            { return "/tmp" }
func Getwd() (string, error)     { return Cur.Cwd, nil }
func UserHomeDir() (string, error) { return "/root", nil }
func Executable() (string, error)  { return "/usr/bin/whawty-auth", nil }
func Getpagesize() int             { return 4096 }

func Chdir(dir string) error {
	f := Cur
	f.enter()
	defer f.mu.Unlock()
	r, e := f.resolve(dir, true)
	if e != 0 {
		return perr("chdir", dir, e)
	}
	if r.node == nil {
		return perr("chdir", dir, syscall.ENOENT)
	}
	if r.node.kind != kDir {
		return perr("chdir", dir, syscall.ENOTDIR)
	}
	f.Cwd = r.real
	return nil
}

// ---------------------------------------------------------------------------------

type fileInfo struct {
	name  string
	size  int64
	mode  fs.FileMode
	mtime time.Time
	ino   int
}

func (i *fileInfo) Name() string       { return i.name }
func (i *fileInfo) Size() int64        { return i.size }
func (i *fileInfo) Mode() fs.FileMode  { return i.mode }
func (i *fileInfo) ModTime() time.Time { return i.mtime }
func (i *fileInfo) IsDir() bool        { return i.mode.IsDir() }
func (i *fileInfo) Sys() any           { return nil }

func infoOf(name string, n *inode) *fileInfo {
	sz := int64(len(n.data))
	if n.kind == kDir {
		sz = 4096
	}
	if n.kind == kSymlink {
		sz = int64(len(n.target))
	}
	return &fileInfo{name: name, size: sz, mode: n.mode(), mtime: n.mtime, ino: n.ino}
}

type dirEntry struct{ i *fileInfo }

func (d dirEntry) Name() string               { return d.i.name }
func (d dirEntry) IsDir() bool                { return d.i.IsDir() }
func (d dirEntry) Type() fs.FileMode          { return d.i.mode.Type() }
func (d dirEntry) Info() (fs.FileInfo, error) { return d.i, nil }
func (d dirEntry) String() string             { return fs.FormatDirEntry(d) }

// File mirrors *os.File.
type File struct {
	fs      *FS
	node    *inode
	name    string // as given to Open
	real    string
	flags   int
	pos     int64
	closed  bool
	std     int
	dirList []string
	dirRead bool
	dirPos  int
}

func baseName(p string) string {
	p = strings.TrimRight(p, "/")
	if i := strings.LastIndexByte(p, '/'); i >= 0 {
		return p[i+1:]
	}
	if p == "" {
		return "/"
	}
	return p
}

func (f *FS) mayRead(n *inode) bool  { return !f.Enforce || n.perm&0o400 != 0 }
func (f *FS) mayWrite(n *inode) bool { return !f.Enforce || n.perm&0o200 != 0 }

var errnoFor = map[string]bool{}

func (f *FS) fire(name string) { f.Fired[name]++ }

func (f *FS) injectedErr(ft *Fault) (syscall.Errno, bool) {
	if ft != nil && ft.Errno != 0 {
		f.fire("errno:" + ft.Errno.Error())
		return ft.Errno, true
	}
	return 0, false
}

func Open(name string) (*File, error) { return OpenFile(name, O_RDONLY, 0) }
func Create(name string) (*File, error) {
	return OpenFile(name, O_RDWR|O_CREATE|O_TRUNC, 0o666)
}

func OpenFile(name string, flag int, perm FileMode) (*File, error) {
	f := Cur
	f.enter()
	defer f.mu.Unlock()
	return f.openLocked(name, flag, perm)
}

func (f *FS) openLocked(name string, flag int, perm FileMode) (*File, error) {
	r, e := f.resolve(name, flag&O_EXCL == 0 || flag&O_CREATE == 0)
	seq, ft := f.begin("open", r.real)
	rec := OpRecord{Seq: seq, Kind: "open", Path: r.lex, Real: r.real, Flags: flag}
	fail := func(e syscall.Errno) (*File, error) {
		rec.Err = e.Error()
		f.record(rec)
		return nil, perr("open", name, e)
	}
	if ie, ok := f.injectedErr(ft); ok {
		rec.Inject = ie.Error()
		return fail(ie)
	}
	if e != 0 && !(e == syscall.ENOTDIR && r.parent != nil && flag&O_CREATE != 0 && strings.HasSuffix(name, "/")) {
		return fail(e)
	}
	if flag&O_CREATE != 0 && strings.HasSuffix(name, "/") {
		return fail(syscall.EISDIR)
	}
	n := r.node
	if n == nil {
		if flag&O_CREATE == 0 {
			return fail(syscall.ENOENT)
		}
		if r.parent == nil {
			return fail(syscall.EISDIR)
		}
		if strings.HasSuffix(name, "/") {
			return fail(syscall.EISDIR)
		}
		if !f.mayWrite(r.parent) {
			return fail(syscall.EACCES)
		}
		n = f.newInode(kFile, perm&0o777&^f.Umask)
		r.parent.ents[r.name] = n
		r.parent.mtime = f.now()
		f.addPend(&dirOp{kind: "link", dir: r.parent, name: r.name, node: n})
		rec.Mut = true
		rec.Kind = "create"
	} else {
		if flag&O_CREATE != 0 && flag&O_EXCL != 0 {
			return fail(syscall.EEXIST)
		}
		if n.kind == kSymlink {
			return fail(syscall.ELOOP)
		}
		acc := flag & (O_RDONLY | O_WRONLY | O_RDWR)
		if n.kind == kDir && (acc != O_RDONLY || flag&O_TRUNC != 0) {
			return fail(syscall.EISDIR)
		}
		if (acc == O_RDONLY || acc == O_RDWR) && !f.mayRead(n) {
			return fail(syscall.EACCES)
		}
		if (acc == O_WRONLY || acc == O_RDWR) && !f.mayWrite(n) {
			return fail(syscall.EACCES)
		}
		if flag&O_TRUNC != 0 && n.kind == kFile && acc != O_RDONLY {
			if len(n.data) > 0 {
				n.data = nil
				n.dirty = true
				n.writes = append(n.writes, wr{trunc: 0})
				rec.Mut = true
			}
		}
	}
	rec.Cred = n.kind != kDir
	f.record(rec)
	return &File{fs: f, node: n, name: name, real: r.real, flags: flag}, nil
}

func (f *FS) tmpName() string {
	if f.Choose != nil {
		return strconv.Itoa(100000000 + f.Choose("tmpname", 900000000))
	}
	f.tmpCtr++
	return strconv.Itoa(100000000 + f.tmpCtr)
}

func CreateTemp(dir, pattern string) (*File, error) {
	f := Cur
	f.enter()
	defer f.mu.Unlock()
	if dir == "" {
		dir = "/tmp"
	}
	prefix, suffix := pattern, ""
	if i := strings.LastIndexByte(pattern, '*'); i >= 0 {
		prefix, suffix = pattern[:i], pattern[i+1:]
	}
	if strings.ContainsRune(pattern, '/') {
		return nil, &PathError{Op: "createtemp", Path: pattern, Err: errors.New("pattern contains path separator")}
	}
	for try := 0; ; try++ {
		name := strings.TrimRight(dir, "/") + "/" + prefix + f.tmpName() + suffix
		if dir == "/" {
			name = "/" + prefix + f.tmpName() + suffix
		}
		fl, err := f.openLocked(name, O_RDWR|O_CREATE|O_EXCL, 0o600)
		if IsExist(err) && try < 10000 {
			continue
		}
		return fl, err
	}
}

func MkdirTemp(dir, pattern string) (string, error) {
	f := Cur
	if dir == "" {
		dir = "/tmp"
	}
	for try := 0; ; try++ {
		f.mu.Lock()
		name := strings.TrimRight(dir, "/") + "/" + strings.Replace(pattern, "*", "", 1) + f.tmpName()
		f.mu.Unlock()
		err := Mkdir(name, 0o700)
		if IsExist(err) && try < 10000 {
			continue
		}
		return name, err
	}
}

func Mkdir(name string, perm FileMode) error {
	f := Cur
	f.enter()
	defer f.mu.Unlock()
	return f.mkdirLocked(name, perm)
}

func (f *FS) mkdirLocked(name string, perm FileMode) error {
	r, e := f.resolve(strings.TrimRight(name, "/")+func() string {
		if strings.Trim(name, "/") == "" {
			return "/"
		}
		return ""
	}(), false)
	seq, ft := f.begin("mkdir", r.real)
	rec := OpRecord{Seq: seq, Kind: "mkdir", Path: r.lex, Real: r.real}
	fail := func(e syscall.Errno) error {
		rec.Err = e.Error()
		f.record(rec)
		return perr("mkdir", name, e)
	}
	if ie, ok := f.injectedErr(ft); ok {
		rec.Inject = ie.Error()
		return fail(ie)
	}
	if e != 0 {
		return fail(e)
	}
	if r.node != nil {
		return fail(syscall.EEXIST)
	}
	if r.parent == nil {
		return fail(syscall.EEXIST)
	}
	if !f.mayWrite(r.parent) {
		return fail(syscall.EACCES)
	}
	n := f.newInode(kDir, perm&0o777&^f.Umask)
	r.parent.ents[r.name] = n
	r.parent.mtime = f.now()
	f.addPend(&dirOp{kind: "link", dir: r.parent, name: r.name, node: n})
	rec.Mut = true
	f.record(rec)
	return nil
}

// MkdirAll follows os.MkdirAll: stat first; create parents recursively.
func MkdirAll(path string, perm FileMode) error {
	if fi, err := Stat(path); err == nil {
		if fi.IsDir() {
			return nil
		}
		return &PathError{Op: "mkdir", Path: path, Err: syscall.ENOTDIR}
	}
	i := len(path)
	for i > 0 && path[i-1] == '/' {
		i--
	}
	j := i
	for j > 0 && path[j-1] != '/' {
		j--
	}
	if j > 1 {
		if err := MkdirAll(path[:j-1], perm); err != nil {
			return err
		}
	}
	err := Mkdir(path, perm)
	if err != nil {
		if fi, err1 := Lstat(path); err1 == nil && fi.IsDir() {
			return nil
		}
		return err
	}
	return nil
}

func Stat(name string) (FileInfo, error)  { return Cur.stat(name, true, "stat") }
func Lstat(name string) (FileInfo, error) { return Cur.stat(name, false, "lstat") }

func (f *FS) stat(name string, follow bool, op string) (FileInfo, error) {
	f.enter()
	defer f.mu.Unlock()
	r, e := f.resolve(name, follow)
	seq, ft := f.begin(op, r.real)
	rec := OpRecord{Seq: seq, Kind: op, Path: r.lex, Real: r.real}
	fail := func(e syscall.Errno) (FileInfo, error) {
		rec.Err = e.Error()
		f.record(rec)
		return nil, perr(op, name, e)
	}
	if ie, ok := f.injectedErr(ft); ok {
		rec.Inject = ie.Error()
		return fail(ie)
	}
	if e != 0 {
		return fail(e)
	}
	if r.node == nil {
		return fail(syscall.ENOENT)
	}
	rec.Cred = r.node.kind != kDir
	f.record(rec)
	return infoOf(baseName(name), r.node), nil
}

func Remove(name string) error {
	f := Cur
	f.enter()
	defer f.mu.Unlock()
	r, e := f.resolve(name, false)
	seq, ft := f.begin("remove", r.real)
	rec := OpRecord{Seq: seq, Kind: "remove", Path: r.lex, Real: r.real}
	fail := func(e syscall.Errno) error {
		rec.Err = e.Error()
		f.record(rec)
		return perr("remove", name, e)
	}
	if ie, ok := f.injectedErr(ft); ok {
		rec.Inject = ie.Error()
		return fail(ie)
	}
	if e != 0 {
		return fail(e)
	}
	if r.node == nil {
		return fail(syscall.ENOENT)
	}
	if r.parent == nil {
		return fail(syscall.EBUSY)
	}
	if r.node.kind == kDir && len(r.node.ents) > 0 {
		return fail(syscall.ENOTEMPTY)
	}
	if !f.mayWrite(r.parent) {
		return fail(syscall.EACCES)
	}
	delete(r.parent.ents, r.name)
	if r.node.kind == kDir {
		r.node.gone = true
	}
	r.parent.mtime = f.now()
	f.addPend(&dirOp{kind: "unlink", dir: r.parent, name: r.name})
	rec.Mut = true
	rec.Cred = r.node.kind != kDir
	f.record(rec)
	return nil
}

func RemoveAll(path string) error {
	fi, err := Lstat(path)
	if err != nil {
		if IsNotExist(err) {
			return nil
		}
		return err
	}
	if fi.IsDir() {
		d, err := Open(path)
		if err != nil {
			return err
		}
		names, _ := d.Readdirnames(-1)
		d.Close() //nolint
		for _, n := range names {
			if err := RemoveAll(strings.TrimRight(path, "/") + "/" + n); err != nil {
				return err
			}
		}
	}
	err = Remove(path)
	if err != nil && IsNotExist(err) {
		return nil
	}
	return err
}

func Rename(oldpath, newpath string) error {
	f := Cur
	f.enter()
	defer f.mu.Unlock()
	ro, eo := f.resolve(oldpath, false)
	rn, en := f.resolve(newpath, false)
	seq, ft := f.begin("rename", rn.real)
	rec := OpRecord{Seq: seq, Kind: "rename", Path: rn.lex, Real: rn.real, Path2: ro.real}
	fail := func(e syscall.Errno) error {
		rec.Err = e.Error()
		f.record(rec)
		return &LinkError{Op: "rename", Old: oldpath, New: newpath, Err: e}
	}
	if ie, ok := f.injectedErr(ft); ok {
		rec.Inject = ie.Error()
		return fail(ie)
	}
	// os.Rename itself refuses an existing directory as the new name (Lstat first)
	if en == 0 && rn.node != nil && rn.node.kind == kDir {
		if eo != 0 {
			return fail(eo)
		}
		if ro.node == nil {
			return fail(syscall.ENOENT)
		}
		if newpath == oldpath || ro.node != rn.node {
			return fail(syscall.EEXIST)
		}
	}
	// kernel order: both parents first, then the last component of old, then of new
	if eo != 0 && !ro.atLast {
		return fail(eo)
	}
	if en != 0 && !rn.atLast {
		return fail(en)
	}
	if eo != 0 {
		return fail(eo)
	}
	if ro.node == nil {
		return fail(syscall.ENOENT)
	}
	if en != 0 {
		return fail(en)
	}
	if ro.parent == nil || rn.parent == nil {
		return fail(syscall.EBUSY)
	}
	if ro.node.kind == kDir && ro.node != rn.node {
		var inside func(n *inode) bool
		inside = func(n *inode) bool {
			if n == rn.parent {
				return true
			}
			for _, c := range n.ents {
				if c.kind == kDir && inside(c) {
					return true
				}
			}
			return false
		}
		if inside(ro.node) {
			return fail(syscall.EINVAL)
		}
	}
	if f.devOf(ro.real) != f.devOf(rn.real) {
		return fail(syscall.EXDEV)
	}
	if !f.mayWrite(ro.parent) || !f.mayWrite(rn.parent) {
		return fail(syscall.EACCES)
	}
	if rn.node != nil {
		if rn.node == ro.node {
			f.record(rec)
			return nil
		}
		if rn.node.kind == kDir && ro.node.kind != kDir {
			return fail(syscall.EISDIR)
		}
		if rn.node.kind != kDir && ro.node.kind == kDir {
			return fail(syscall.ENOTDIR)
		}
		if rn.node.kind == kDir && len(rn.node.ents) > 0 {
			return fail(syscall.ENOTEMPTY)
		}
	}
	delete(ro.parent.ents, ro.name)
	if rn.node != nil && rn.node.kind == kDir {
		rn.node.gone = true
	}
	rn.parent.ents[rn.name] = ro.node
	ro.parent.mtime = f.now()
	rn.parent.mtime = f.now()
	f.addPend(&dirOp{kind: "rename", dir: rn.parent, name: rn.name, node: ro.node, srcDir: ro.parent, src: ro.name})
	rec.Mut = true
	rec.Cred = ro.node.kind != kDir
	f.record(rec)
	return nil
}

func Link(oldname, newname string) error {
	f := Cur
	f.enter()
	defer f.mu.Unlock()
	ro, eo := f.resolve(oldname, false)
	rn, en := f.resolve(newname, false)
	seq, ft := f.begin("link", rn.real)
	rec := OpRecord{Seq: seq, Kind: "link", Path: rn.lex, Real: rn.real, Path2: ro.real}
	fail := func(e syscall.Errno) error {
		rec.Err = e.Error()
		f.record(rec)
		return &LinkError{Op: "link", Old: oldname, New: newname, Err: e}
	}
	if ie, ok := f.injectedErr(ft); ok {
		rec.Inject = ie.Error()
		return fail(ie)
	}
	if eo != 0 {
		return fail(eo)
	}
	if en != 0 {
		return fail(en)
	}
	if ro.node == nil {
		return fail(syscall.ENOENT)
	}
	if rn.node != nil {
		return fail(syscall.EEXIST)
	}
	if ro.node.kind == kDir {
		return fail(syscall.EPERM)
	}
	if f.devOf(ro.real) != f.devOf(rn.real) {
		return fail(syscall.EXDEV)
	}
	rn.parent.ents[rn.name] = ro.node
	f.addPend(&dirOp{kind: "link", dir: rn.parent, name: rn.name, node: ro.node})
	rec.Mut = true
	rec.Cred = true
	f.record(rec)
	return nil
}

func Symlink(oldname, newname string) error {
	f := Cur
	f.enter()
	defer f.mu.Unlock()
	rn, en := f.resolve(newname, false)
	seq, ft := f.begin("symlink", rn.real)
	rec := OpRecord{Seq: seq, Kind: "symlink", Path: rn.lex, Real: rn.real, Path2: oldname}
	fail := func(e syscall.Errno) error {
		rec.Err = e.Error()
		f.record(rec)
		return &LinkError{Op: "symlink", Old: oldname, New: newname, Err: e}
	}
	if ie, ok := f.injectedErr(ft); ok {
		rec.Inject = ie.Error()
		return fail(ie)
	}
	if en != 0 {
		return fail(en)
	}
	if rn.node != nil {
		return fail(syscall.EEXIST)
	}
	n := f.newInode(kSymlink, 0o777)
	n.target = oldname
	rn.parent.ents[rn.name] = n
	f.addPend(&dirOp{kind: "link", dir: rn.parent, name: rn.name, node: n})
	rec.Mut = true
	f.record(rec)
	return nil
}

func Readlink(name string) (string, error) {
	f := Cur
	f.enter()
	defer f.mu.Unlock()
	r, e := f.resolve(name, false)
	seq, ft := f.begin("readlink", r.real)
	rec := OpRecord{Seq: seq, Kind: "readlink", Path: r.lex, Real: r.real}
	fail := func(e syscall.Errno) (string, error) {
		rec.Err = e.Error()
		f.record(rec)
		return "", perr("readlink", name, e)
	}
	if ie, ok := f.injectedErr(ft); ok {
		return fail(ie)
	}
	if e != 0 {
		return fail(e)
	}
	if r.node == nil {
		return fail(syscall.ENOENT)
	}
	if r.node.kind != kSymlink {
		return fail(syscall.EINVAL)
	}
	f.record(rec)
	return r.node.target, nil
}

func Chmod(name string, mode FileMode) error {
	f := Cur
	f.enter()
	defer f.mu.Unlock()
	r, e := f.resolve(name, true)
	seq, ft := f.begin("chmod", r.real)
	rec := OpRecord{Seq: seq, Kind: "chmod", Path: r.lex, Real: r.real}
	fail := func(e syscall.Errno) error {
		rec.Err = e.Error()
		f.record(rec)
		return perr("chmod", name, e)
	}
	if ie, ok := f.injectedErr(ft); ok {
		return fail(ie)
	}
	if e != 0 {
		return fail(e)
	}
	if r.node == nil {
		return fail(syscall.ENOENT)
	}
	r.node.perm = mode & 0o7777
	rec.Mut = true
	f.record(rec)
	return nil
}

func Chown(name string, uid, gid int) error  { _, err := Stat(name); return err }
func Lchown(name string, uid, gid int) error { _, err := Lstat(name); return err }
func Chtimes(name string, a, m time.Time) error {
	_, err := Stat(name)
	return err
}

func Truncate(name string, size int64) error {
	fl, err := OpenFile(name, O_WRONLY, 0)
	if err != nil {
		return err
	}
	defer fl.Close() //nolint
	return fl.Truncate(size)
}

func ReadFile(name string) ([]byte, error) {
	fl, err := Open(name)
	if err != nil {
		return nil, err
	}
	defer fl.Close() //nolint
	return io.ReadAll(fl)
}

func WriteFile(name string, data []byte, perm FileMode) error {
	fl, err := OpenFile(name, O_WRONLY|O_CREATE|O_TRUNC, perm)
	if err != nil {
		return err
	}
	_, err = fl.Write(data)
	if err1 := fl.Close(); err1 != nil && err == nil {
		err = err1
	}
	return err
}

func ReadDir(name string) ([]DirEntry, error) {
	fl, err := Open(name)
	if err != nil {
		return nil, err
	}
	defer fl.Close() //nolint
	ents, err := fl.ReadDir(-1)
	sort.Slice(ents, func(i, j int) bool { return ents[i].Name() < ents[j].Name() })
	return ents, err
}

// DirFS is not simulated.
func DirFS(dir string) fs.FS { panic("simfs: os.DirFS is not simulated") }

// ---------------------------------------------------------------------------------
// File methods

func (fl *File) Name() string { return fl.name }
func (fl *File) Fd() uintptr  { return uintptr(1000) }

func (fl *File) checkOpen(op string) error {
	if fl == nil {
		return ErrInvalid
	}
	if fl.closed {
		return &PathError{Op: op, Path: fl.name, Err: ErrClosed}
	}
	return nil
}

func (fl *File) Read(b []byte) (int, error) {
	if fl != nil && fl.std != 0 {
		return 0, io.EOF
	}
	if err := fl.checkOpen("read"); err != nil {
		return 0, err
	}
	f := fl.fs
	f.enter()
	defer f.mu.Unlock()
	seq, ft := f.begin("read", fl.real)
	rec := OpRecord{Seq: seq, Kind: "read", Path: fl.name, Real: fl.real}
	if ie, ok := f.injectedErr(ft); ok {
		rec.Err, rec.Inject = ie.Error(), ie.Error()
		f.record(rec)
		return 0, perr("read", fl.name, ie)
	}
	if fl.node.kind == kDir {
		rec.Err = syscall.EISDIR.Error()
		f.record(rec)
		return 0, perr("read", fl.name, syscall.EISDIR)
	}
	if fl.flags&(O_WRONLY|O_RDWR) == O_WRONLY {
		rec.Err = syscall.EBADF.Error()
		f.record(rec)
		return 0, perr("read", fl.name, syscall.EBADF)
	}
	if len(b) == 0 {
		f.record(rec)
		return 0, nil
	}
	if fl.pos >= int64(len(fl.node.data)) {
		f.record(rec)
		return 0, io.EOF
	}
	n := copy(b, fl.node.data[fl.pos:])
	if ft != nil && ft.Short > 0 && ft.Short < n {
		n = ft.Short
		f.fire("short-read")
	}
	fl.pos += int64(n)
	rec.N = n
	f.record(rec)
	return n, nil
}

func (fl *File) ReadAt(b []byte, off int64) (int, error) {
	if err := fl.checkOpen("read"); err != nil {
		return 0, err
	}
	f := fl.fs
	f.enter()
	defer f.mu.Unlock()
	if off >= int64(len(fl.node.data)) {
		return 0, io.EOF
	}
	n := copy(b, fl.node.data[off:])
	if n < len(b) {
		return n, io.EOF
	}
	return n, nil
}

func (fl *File) Write(b []byte) (int, error) {
	if fl != nil && fl.std != 0 {
		switch fl.std {
		case 2:
			return StdoutSink.Write(b)
		case 3:
			return StderrSink.Write(b)
		}
		return 0, ErrInvalid
	}
	if err := fl.checkOpen("write"); err != nil {
		return 0, err
	}
	f := fl.fs
	f.enter()
	defer f.mu.Unlock()
	return fl.writeLocked(b, -1)
}

func (fl *File) WriteAt(b []byte, off int64) (int, error) {
	if err := fl.checkOpen("write"); err != nil {
		return 0, err
	}
	f := fl.fs
	f.enter()
	defer f.mu.Unlock()
	return fl.writeLocked(b, off)
}

func (fl *File) writeLocked(b []byte, at int64) (int, error) {
	f := fl.fs
	seq, ft := f.begin("write", fl.real)
	rec := OpRecord{Seq: seq, Kind: "write", Path: fl.name, Real: fl.real}
	if fl.flags&(O_WRONLY|O_RDWR) == 0 {
		rec.Err = syscall.EBADF.Error()
		f.record(rec)
		return 0, perr("write", fl.name, syscall.EBADF)
	}
	n := len(b)
	var retErr error
	crashAfter := false
	if ft != nil {
		if ft.Short > 0 && ft.Short < n {
			n = ft.Short
			f.fire("short-write")
			if ft.Crash {
				crashAfter = true
			}
		} else if ft.Errno != 0 {
			n = 0
		}
		if ft.Errno != 0 {
			f.fire("errno:" + ft.Errno.Error())
			rec.Inject = ft.Errno.Error()
			rec.Err = ft.Errno.Error()
			retErr = perr("write", fl.name, ft.Errno)
		} else if n < len(b) && !crashAfter {
			retErr = io.ErrShortWrite
		}
	}
	if n > 0 {
		off := at
		if off < 0 {
			off = fl.pos
			if fl.flags&O_APPEND != 0 {
				off = int64(len(fl.node.data))
			}
		}
		end := off + int64(n)
		for int64(len(fl.node.data)) < end {
			fl.node.data = append(fl.node.data, 0)
		}
		copy(fl.node.data[off:end], b[:n])
		fl.node.dirty = true
		fl.node.writes = append(fl.node.writes, wr{off: off, data: append([]byte(nil), b[:n]...), trunc: -1})
		fl.node.mtime = f.now()
		if at < 0 {
			fl.pos = end
		}
		if f.KeepBytes {
			f.ByteLog = append(f.ByteLog, append([]byte(nil), b[:n]...))
		}
		rec.Mut = true
		rec.N = n
	}
	f.record(rec)
	if crashAfter {
		f.fire("crash")
		f.Frozen = true
		f.dead()
	}
	return n, retErr
}

func (fl *File) WriteString(s string) (int, error) { return fl.Write([]byte(s)) }

func (fl *File) Seek(offset int64, whence int) (int64, error) {
	if err := fl.checkOpen("seek"); err != nil {
		return 0, err
	}
	f := fl.fs
	f.enter()
	defer f.mu.Unlock()
	var np int64
	switch whence {
	case 0:
		np = offset
	case 1:
		np = fl.pos + offset
	case 2:
		np = int64(len(fl.node.data)) + offset
	default:
		return 0, perr("seek", fl.name, syscall.EINVAL)
	}
	if np < 0 {
		return 0, perr("seek", fl.name, syscall.EINVAL)
	}
	fl.pos = np
	if fl.node.kind == kDir && np == 0 {
		fl.dirRead = false
		fl.dirPos = 0
	}
	return np, nil
}

func (fl *File) Truncate(size int64) error {
	if err := fl.checkOpen("truncate"); err != nil {
		return err
	}
	f := fl.fs
	f.enter()
	defer f.mu.Unlock()
	seq, ft := f.begin("truncate", fl.real)
	rec := OpRecord{Seq: seq, Kind: "truncate", Path: fl.name, Real: fl.real}
	if ie, ok := f.injectedErr(ft); ok {
		rec.Err, rec.Inject = ie.Error(), ie.Error()
		f.record(rec)
		return perr("truncate", fl.name, ie)
	}
	if fl.flags&(O_WRONLY|O_RDWR) == 0 || fl.node.kind != kFile {
		rec.Err = syscall.EINVAL.Error()
		f.record(rec)
		return perr("truncate", fl.name, syscall.EINVAL)
	}
	if int64(len(fl.node.data)) > size {
		fl.node.data = fl.node.data[:size]
	}
	for int64(len(fl.node.data)) < size {
		fl.node.data = append(fl.node.data, 0)
	}
	fl.node.dirty = true
	fl.node.writes = append(fl.node.writes, wr{trunc: size})
	rec.Mut = true
	f.record(rec)
	return nil
}

func (fl *File) Sync() error {
	if fl != nil && fl.std != 0 {
		return nil
	}
	if err := fl.checkOpen("sync"); err != nil {
		return err
	}
	f := fl.fs
	f.enter()
	defer f.mu.Unlock()
	seq, ft := f.begin("sync", fl.real)
	rec := OpRecord{Seq: seq, Kind: "sync", Path: fl.name, Real: fl.real}
	if ie, ok := f.injectedErr(ft); ok {
		rec.Err, rec.Inject = ie.Error(), ie.Error()
		f.record(rec)
		// Linux semantics of a failed fsync: the error is reported once and the dirty pages are
		// marked clean although they never reached the disk - a second fsync returns success
		// and makes nothing durable. The writes stay visible (page cache) and are lost with the
		// power; only data written after this point can become durable again.
		if fl.node.kind == kFile && fl.node.dirty {
			fl.node.lostAt = len(fl.node.data)
			fl.node.lost = true
		}
		return perr("sync", fl.name, ie)
	}
	if fl.node.kind == kDir {
		f.syncDir(fl.node)
	} else if fl.node.kind == kFile {
		if fl.node.lost {
			// the pages written before the failed fsync are clean in the cache and not on disk
			fl.node.dirty = false
			fl.node.writes = nil
		} else {
			fl.node.syncData()
		}
	}
	f.record(rec)
	return nil
}

func (fl *File) Close() error {
	if fl != nil && fl.std != 0 {
		return nil
	}
	if fl == nil {
		return ErrInvalid
	}
	if fl.closed {
		return &PathError{Op: "close", Path: fl.name, Err: ErrClosed}
	}
	f := fl.fs
	f.enter()
	defer f.mu.Unlock()
	seq, _ := f.begin("close", fl.real)
	fl.closed = true
	f.record(OpRecord{Seq: seq, Kind: "close", Path: fl.name, Real: fl.real})
	return nil
}

func (fl *File) Stat() (FileInfo, error) {
	if fl != nil && fl.std != 0 {
		return &fileInfo{name: fl.name, mode: fs.ModeCharDevice | 0o620}, nil
	}
	if err := fl.checkOpen("stat"); err != nil {
		return nil, err
	}
	f := fl.fs
	f.enter()
	defer f.mu.Unlock()
	seq, ft := f.begin("fstat", fl.real)
	rec := OpRecord{Seq: seq, Kind: "fstat", Path: fl.name, Real: fl.real}
	if ie, ok := f.injectedErr(ft); ok {
		rec.Err, rec.Inject = ie.Error(), ie.Error()
		f.record(rec)
		return nil, perr("stat", fl.name, ie)
	}
	f.record(rec)
	return infoOf(baseName(fl.name), fl.node), nil
}

func (fl *File) Chmod(mode FileMode) error {
	if err := fl.checkOpen("chmod"); err != nil {
		return err
	}
	f := fl.fs
	f.enter()
	defer f.mu.Unlock()
	seq, _ := f.begin("chmod", fl.real)
	fl.node.perm = mode & 0o7777
	f.record(OpRecord{Seq: seq, Kind: "chmod", Path: fl.name, Real: fl.real, Mut: true})
	return nil
}

func (fl *File) Chown(uid, gid int) error         { return nil }
func (fl *File) Chdir() error                     { return Chdir(fl.name) }
func (fl *File) SetDeadline(t time.Time) error    { return ErrNoDeadline }
func (fl *File) SetReadDeadline(t time.Time) error  { return ErrNoDeadline }
func (fl *File) SetWriteDeadline(t time.Time) error { return ErrNoDeadline }

// readdir snapshot: taken at the first read of the handle, in an order chosen by the
// scheduler (C16: nothing may depend on directory iteration order).
func (fl *File) loadDir() {
	f := fl.fs
	names := make([]string, 0, len(fl.node.ents))
	for k := range fl.node.ents {
		names = append(names, k)
	}
	sort.Strings(names)
	if f.Choose != nil {
		for i := len(names) - 1; i > 0; i-- {
			j := f.Choose("dirorder", i+1)
			names[i], names[j] = names[j], names[i]
		}
	}
	fl.dirList = names
	fl.dirRead = true
	fl.dirPos = 0
}

func (fl *File) readdirCommon(n int, op string) ([]string, error) {
	if err := fl.checkOpen(op); err != nil {
		return nil, err
	}
	f := fl.fs
	seq, ft := f.begin("readdir", fl.real)
	rec := OpRecord{Seq: seq, Kind: "readdir", Path: fl.name, Real: fl.real}
	if ie, ok := f.injectedErr(ft); ok {
		rec.Err, rec.Inject = ie.Error(), ie.Error()
		f.record(rec)
		return nil, perr(op, fl.name, ie)
	}
	if fl.node.kind != kDir {
		rec.Err = syscall.ENOTDIR.Error()
		f.record(rec)
		return nil, perr(op, fl.name, syscall.ENOTDIR)
	}
	if fl.node.gone {
		rec.Err = syscall.ENOENT.Error()
		f.record(rec)
		return nil, perr(op, fl.name, syscall.ENOENT)
	}
	if !fl.dirRead {
		fl.loadDir()
	}
	rest := fl.dirList[fl.dirPos:]
	if n > 0 {
		if len(rest) == 0 {
			f.record(rec)
			return nil, io.EOF
		}
		if len(rest) > n {
			rest = rest[:n]
		}
	}
	fl.dirPos += len(rest)
	rec.N = len(rest)
	f.record(rec)
	return rest, nil
}

func (fl *File) Readdirnames(n int) ([]string, error) {
	if fl == nil {
		return nil, ErrInvalid
	}
	f := fl.fs
	f.enter()
	defer f.mu.Unlock()
	names, err := fl.readdirCommon(n, "readdirent")
	if names == nil && err == nil {
		names = []string{}
	}
	return append([]string(nil), names...), err
}

func (fl *File) Readdir(n int) ([]FileInfo, error) {
	if fl == nil {
		return nil, ErrInvalid
	}
	f := fl.fs
	f.enter()
	defer f.mu.Unlock()
	names, err := fl.readdirCommon(n, "readdirent")
	out := []FileInfo{}
	for _, k := range names {
		if c := fl.node.ents[k]; c != nil {
			out = append(out, infoOf(k, c))
		}
	}
	return out, err
}

func (fl *File) ReadDir(n int) ([]DirEntry, error) {
	if fl == nil {
		return nil, ErrInvalid
	}
	f := fl.fs
	f.enter()
	defer f.mu.Unlock()
	names, err := fl.readdirCommon(n, "readdirent")
	out := []DirEntry{}
	for _, k := range names {
		if c := fl.node.ents[k]; c != nil {
			out = append(out, dirEntry{infoOf(k, c)})
		}
	}
	return out, err
}

// RealPath resolves every symbolic link of path (simfilepath.EvalSymlinks).
func RealPath(path string) (string, syscall.Errno) {
	f := Cur
	f.mu.Lock()
	defer f.mu.Unlock()
	r, e := f.resolve(path, true)
	if e != 0 {
		return "", e
	}
	if r.node == nil {
		return "", syscall.ENOENT
	}
	return r.real, 0
}
