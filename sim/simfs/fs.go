// Package simfs is the simulated disk of DESIGN.md 2.4: an in-memory POSIX-like file
// system reached through the names of package os, with an explicit durability model,
// fault injection at every operation, crash (process kill / power loss) images, a
// complete operation log, a path log and a byte log.
//
// The code under verification imports this package under the local name "os" (import
// redirection by simgen); nothing in /repo is edited.
package simfs

import (
	"fmt"
	"io/fs"
	"sort"
	"strings"
	"sync"
	"syscall"
	"time"
)

type kind int

const (
	kFile kind = iota
	kDir
	kSymlink
	kFifo
)

type wr struct {
	off   int64
	data  []byte
	trunc int64 // >= 0: truncate to this size (data nil)
}

type inode struct {
	ino    int
	kind   kind
	perm   fs.FileMode
	data   []byte // volatile content
	dur    []byte // durable content
	dirty  bool
	writes []wr // since last fsync
	ents   map[string]*inode
	dents  map[string]*inode // durable entries
	target string
	mtime  time.Time
	gone   bool // directory unlinked while handles may still be open
	lost   bool // an fsync of this file failed: what was dirty then never becomes durable
	lostAt int
}

// pending (not yet durable) directory operation
type dirOp struct {
	seq    int
	kind   string // "link", "unlink", "rename"
	dir    *inode // link/unlink: directory; rename: destination directory
	name   string
	node   *inode // link/rename: the inode that gets the name
	srcDir *inode // rename only
	src    string
}

// OpRecord is one entry of the operation log.
type OpRecord struct {
	Seq    int
	Kind   string // open create mkdir remove rename stat lstat read write sync close readdir fstat truncate chmod symlink link readlink
	Path   string // path as given (lexically cleaned, absolute)
	Real   string // real path of the object touched (symlinks in the directory part resolved)
	Path2  string // rename/link/symlink: the other path (real)
	Flags  int
	N      int // bytes read/written
	Err    string
	Mut    bool // the operation mutated the file system
	Cred   bool // the object was opened/stat'ed as a file (not a directory)
	Inject string
	At     time.Time
}

// Fault describes what the plan wants to happen to one operation.
type Fault struct {
	Errno syscall.Errno // fail with this errno (0 = none)
	Short int           // write only: apply this many bytes, then fail with Errno (or return short count if Errno==0)
	Crash bool          // crash before the operation (after applying Short bytes of a write when Short > 0)
	Power bool          // informational: the harness will build a power-loss image
}

// CrashSignal is the panic value used in CrashPanic mode.
type CrashSignal struct{ Seq int }

const (
	CrashPanic = iota // frozen FS panics with CrashSignal (library-level runs; harness recovers)
	CrashBlock        // frozen FS blocks the caller forever (agent-level runs; the bubble is abandoned)
)

// FS is one simulated file system.
type FS struct {
	mu        sync.Mutex
	root      *inode
	nextIno   int
	Log       []OpRecord
	KeepLog   bool
	NOps      int // operations so far (every entry point counts one)
	Mutations int
	Plan      func(seq int, kind, real string) *Fault
	Frozen    bool
	CrashMode int
	pend      []*dirOp
	pendSeq   int
	Choose    func(kind string, n int) int // temp names, directory order; nil = deterministic default
	Cwd       string
	Now       func() time.Time
	ByteLog   [][]byte // every buffer ever written
	KeepBytes bool
	Enforce   bool // enforce permission bits (caller is not root)
	Fired     map[string]int
	Umask     fs.FileMode
	Gate      func() // called at the entry of every os-level operation, before the lock is taken (interleaving of "processes")
	tmpCtr    int
	Mounts    []string // real paths of directories that are other devices (rename/link across: EXDEV)
}

// Cur is the file system the os-named entry points operate on.
var Cur *FS

func New() *FS {
	f := &FS{nextIno: 2, Cwd: "/", KeepLog: true, Fired: map[string]int{}, Umask: 0o022}
	f.root = &inode{ino: 1, kind: kDir, perm: 0o755, ents: map[string]*inode{}, dents: map[string]*inode{}}
	return f
}

func (f *FS) now() time.Time {
	if f.Now != nil {
		return f.Now()
	}
	return time.Now()
}

func (f *FS) newInode(k kind, perm fs.FileMode) *inode {
	n := &inode{ino: f.nextIno, kind: k, perm: perm, mtime: f.now()}
	f.nextIno++
	if k == kDir {
		n.ents = map[string]*inode{}
		n.dents = map[string]*inode{}
	}
	return n
}

func (n *inode) mode() fs.FileMode {
	switch n.kind {
	case kDir:
		return n.perm | fs.ModeDir
	case kSymlink:
		return n.perm | fs.ModeSymlink
	case kFifo:
		return n.perm | fs.ModeNamedPipe
	}
	return n.perm
}

// ---------------------------------------------------------------------------------
// path resolution

type resolved struct {
	parent *inode
	name   string
	node   *inode // nil if the last component does not exist
	real   string // real path of parent + "/" + name
	lex    string
	atLast bool // the error arose while looking at the last component
}

func cleanAbs(cwd, p string) string {
	if !strings.HasPrefix(p, "/") {
		p = cwd + "/" + p
	}
	return p
}

// lexClean is filepath.Clean for absolute slash paths.
func lexClean(p string) string {
	parts := strings.Split(p, "/")
	var out []string
	for _, c := range parts {
		switch c {
		case "", ".":
		case "..":
			if len(out) > 0 {
				out = out[:len(out)-1]
			}
		default:
			out = append(out, c)
		}
	}
	return "/" + strings.Join(out, "/")
}

func (f *FS) checkX(d *inode) bool {
	if !f.Enforce {
		return true
	}
	return d.perm&0o100 != 0
}

// resolve walks path the way the kernel does. followLast: resolve a symlink in the last
// component. Errors are bare errnos.
func (f *FS) resolve(path string, followLast bool) (resolved, syscall.Errno) {
	var r resolved
	if path == "" {
		return r, syscall.ENOENT
	}
	if strings.IndexByte(path, 0) >= 0 {
		return r, syscall.EINVAL
	}
	if len(path) > 4095 {
		return r, syscall.ENAMETOOLONG
	}
	abs := cleanAbs(f.Cwd, path)
	r.lex = lexClean(abs)
	return f.walk(abs, followLast, 0, r.lex)
}

func (f *FS) walk(abs string, followLast bool, depth int, lex string) (resolved, syscall.Errno) {
	var r resolved
	r.lex = lex
	if depth > 40 {
		return r, syscall.ELOOP
	}
	comps := strings.Split(abs, "/")
	trailingSlash := strings.HasSuffix(abs, "/") && len(abs) > 1
	// stack of (dir, name) for ".." handling and real path
	type ent struct {
		node *inode
		name string
	}
	stack := []ent{{f.root, ""}}
	realOf := func() string {
		var sb strings.Builder
		for _, e := range stack[1:] {
			sb.WriteByte('/')
			sb.WriteString(e.name)
		}
		if sb.Len() == 0 {
			return "/"
		}
		return sb.String()
	}
	// filter empty comps
	var cs []string
	for _, c := range comps {
		if c != "" {
			cs = append(cs, c)
		}
	}
	if len(cs) == 0 {
		r.parent, r.name, r.node, r.real = nil, "", f.root, "/"
		return r, 0
	}
	for i, c := range cs {
		last := i == len(cs)-1
		cur := stack[len(stack)-1].node
		if cur.kind != kDir {
			return r, syscall.ENOTDIR
		}
		if !f.checkX(cur) {
			return r, syscall.EACCES
		}
		if len(c) > 255 {
			r.atLast = last
			return r, syscall.ENAMETOOLONG
		}
		if c == "." {
			if last {
				// resolves to cur itself
				if len(stack) == 1 {
					r.parent, r.name, r.node, r.real = nil, "", f.root, "/"
				} else {
					r.parent, r.name, r.node = stack[len(stack)-2].node, stack[len(stack)-1].name, cur
					r.real = realOf()
				}
				return r, 0
			}
			continue
		}
		if c == ".." {
			if len(stack) > 1 {
				stack = stack[:len(stack)-1]
			}
			if last {
				cur = stack[len(stack)-1].node
				if len(stack) == 1 {
					r.parent, r.name, r.node, r.real = nil, "", f.root, "/"
				} else {
					r.parent, r.name, r.node = stack[len(stack)-2].node, stack[len(stack)-1].name, cur
					r.real = realOf()
				}
				return r, 0
			}
			continue
		}
		child := cur.ents[c]
		if child != nil && child.kind == kSymlink && (!last || followLast || trailingSlash) {
			// splice the target in
			rest := strings.Join(cs[i+1:], "/")
			var np string
			if strings.HasPrefix(child.target, "/") {
				np = child.target
			} else {
				np = realOf() + "/" + child.target
			}
			if rest != "" {
				np += "/" + rest
			}
			if trailingSlash {
				np += "/"
			}
			return f.walk(np, followLast, depth+1, lex)
		}
		if last {
			r.parent, r.name, r.node = cur, c, child
			base := realOf()
			if base == "/" {
				r.real = "/" + c
			} else {
				r.real = base + "/" + c
			}
			if child != nil && trailingSlash && child.kind != kDir {
				return r, syscall.ENOTDIR
			}
			if child == nil && trailingSlash {
				// creating "x/" is only valid for mkdir; callers treat node==nil
			}
			return r, 0
		}
		if child == nil {
			return r, syscall.ENOENT
		}
		stack = append(stack, ent{child, c})
	}
	return r, syscall.ENOENT
}

// ---------------------------------------------------------------------------------
// operation bookkeeping

func (f *FS) record(rec OpRecord) {
	if rec.Mut {
		f.Mutations++
	}
	if f.KeepLog {
		rec.At = f.now()
		f.Log = append(f.Log, rec)
	}
}

// enter is the first thing every os-level entry point does.
func (f *FS) enter() {
	if g := f.Gate; g != nil {
		g()
	}
	f.mu.Lock()
}

// begin is called at the entry of every operation with the lock held. It returns the
// fault to apply (nil = none). A crash freezes the file system and does not return.
func (f *FS) begin(kind, real string) (int, *Fault) {
	if f.Frozen {
		f.dead()
	}
	seq := f.NOps
	f.NOps++
	if f.Plan != nil {
		if ft := f.Plan(seq, kind, real); ft != nil {
			if ft.Crash && ft.Short <= 0 {
				f.Fired["crash"]++
				f.Frozen = true
				f.dead()
			}
			return seq, ft
		}
	}
	return seq, nil
}

// dead is called with the lock held. Entry points release the lock with a deferred
// Unlock: in panic mode the unwinding does that; in block mode dead unlocks itself (the
// deferred call never runs because the caller never returns).
func (f *FS) dead() {
	if f.CrashMode == CrashPanic {
		panic(CrashSignal{f.NOps})
	}
	f.mu.Unlock()
	select {} // the caller is gone, like a killed process (a durable block for synctest)
}

// Freeze stops the file system (crash at a quiescent point).
func (f *FS) Freeze() { f.mu.Lock(); f.Frozen = true; f.mu.Unlock() }

func perr(op, path string, e syscall.Errno) error {
	return &fs.PathError{Op: op, Path: path, Err: e}
}

// ---------------------------------------------------------------------------------
// durability

func (f *FS) addPend(op *dirOp) {
	f.pendSeq++
	op.seq = f.pendSeq
	f.pend = append(f.pend, op)
}

type nameKey struct {
	dir  *inode
	name string
}

func (op *dirOp) keys() []nameKey {
	if op.kind == "rename" {
		return []nameKey{{op.dir, op.name}, {op.srcDir, op.src}}
	}
	return []nameKey{{op.dir, op.name}}
}

// applyDurable applies op to the durable tree. mode: 1 = full, 2 = link half only (rename).
func applyDurable(op *dirOp, mode int) {
	switch op.kind {
	case "link":
		op.dir.dents[op.name] = op.node
	case "unlink":
		delete(op.dir.dents, op.name)
	case "rename":
		op.dir.dents[op.name] = op.node
		if mode == 1 {
			if op.srcDir.dents[op.src] == op.node {
				delete(op.srcDir.dents, op.src)
			}
		}
	}
}

// syncDir makes every pending operation on entries of d durable, together with every
// earlier pending operation on the same (directory, name) keys (a journal commits
// dependencies first).
func (f *FS) syncDir(d *inode) {
	sel := make([]bool, len(f.pend))
	need := map[nameKey]bool{}
	for i := len(f.pend) - 1; i >= 0; i-- {
		op := f.pend[i]
		// a rename belongs to its destination directory: fsync of the source directory alone does
		// not make it durable (POSIX promises nothing else; a journalling file system may do
		// better, the code under test must not rely on it). It stays atomic either way.
		touch := op.dir == d
		if !touch {
			for _, k := range op.keys() {
				if need[k] {
					touch = true
				}
			}
		}
		if touch {
			sel[i] = true
			for _, k := range op.keys() {
				need[k] = true
			}
		}
	}
	var rest []*dirOp
	for i, op := range f.pend {
		if sel[i] {
			applyDurable(op, 1)
		} else {
			rest = append(rest, op)
		}
	}
	f.pend = rest
}

func (n *inode) syncData() {
	n.dur = append([]byte(nil), n.data...)
	n.dirty = false
	n.writes = nil
}

// SyncAll makes everything durable (used to build initial images).
func (f *FS) SyncAll() {
	f.mu.Lock()
	defer f.mu.Unlock()
	for _, op := range f.pend {
		applyDurable(op, 1)
	}
	f.pend = nil
	seen := map[*inode]bool{}
	var rec func(n *inode)
	rec = func(n *inode) {
		if seen[n] {
			return
		}
		seen[n] = true
		if n.kind == kFile && n.dirty {
			n.syncData()
		}
		for _, c := range n.ents {
			rec(c)
		}
	}
	rec(f.root)
}

// PendingInfo describes the not-yet-durable state (for evidence and probes).
func (f *FS) PendingInfo() (dirOps int, dirtyFiles int) {
	f.mu.Lock()
	defer f.mu.Unlock()
	seen := map[*inode]bool{}
	var rec func(n *inode)
	rec = func(n *inode) {
		if seen[n] {
			return
		}
		seen[n] = true
		if n.kind == kFile && n.dirty {
			dirtyFiles++
		}
		for _, c := range n.ents {
			rec(c)
		}
	}
	rec(f.root)
	return len(f.pend), dirtyFiles
}

// dataVariants lists the contents a dirty file may have after power loss.
func dataVariants(n *inode) [][]byte {
	var out [][]byte
	seen := map[string]bool{}
	add := func(b []byte) {
		k := string(b)
		if !seen[k] {
			seen[k] = true
			out = append(out, append([]byte(nil), b...))
		}
	}
	add(n.dur)  // nothing reached the disk
	add(n.data) // everything did
	apply := func(cur []byte, w wr, upto int) []byte {
		if w.data == nil {
			if int64(len(cur)) > w.trunc {
				return cur[:w.trunc]
			}
			for int64(len(cur)) < w.trunc {
				cur = append(cur, 0)
			}
			return cur
		}
		d := w.data[:upto]
		end := int(w.off) + len(d)
		for len(cur) < end {
			cur = append(cur, 0)
		}
		copy(cur[w.off:], d)
		return cur
	}
	cur := append([]byte(nil), n.dur...)
	for _, w := range n.writes {
		if w.data != nil && len(w.data) > 1 {
			// torn: a prefix of this write
			for _, cut := range []int{1, len(w.data) / 2, len(w.data) - 1} {
				if cut > 0 && cut < len(w.data) {
					add(apply(append([]byte(nil), cur...), w, cut))
				}
			}
			// size updated, data blocks not written: zeros
			z := append([]byte(nil), cur...)
			end := int(w.off) + len(w.data)
			for len(z) < end {
				z = append(z, 0)
			}
			for i := int(w.off); i < end; i++ {
				z[i] = 0
			}
			add(z)
		}
		if w.data != nil {
			cur = apply(cur, w, len(w.data))
		} else {
			cur = apply(cur, w, 0)
		}
		add(cur)
	}
	return out
}

// PowerLossImage builds one post-power-loss file system. choose decides, for each pending
// directory operation (in order) whether it reached the disk, and for each dirty file
// which content variant survived. The per-name prefix rule of DESIGN.md 2.4 is enforced
// here, so every choice sequence yields a legal image. The receiver is not modified.
func (f *FS) PowerLossImage(choose func(kind string, n int) int) *FS {
	f.mu.Lock()
	c, m := f.cloneLocked()
	f.mu.Unlock()
	blocked := map[nameKey]bool{}
	for _, op := range c.pend {
		forced := false
		for _, k := range op.keys() {
			if blocked[k] {
				forced = true
			}
		}
		mode := 0
		if !forced {
			if op.kind == "rename" {
				mode = choose("pl-rename", 3) // 0 lost, 1 full, 2 both names
			} else {
				mode = choose("pl-dirop", 2)
			}
		}
		switch mode {
		case 0:
			for _, k := range op.keys() {
				blocked[k] = true
			}
		case 1:
			applyDurable(op, 1)
		case 2:
			applyDurable(op, 2)
			blocked[nameKey{op.srcDir, op.src}] = true
		}
	}
	c.pend = nil
	_ = m
	// volatile := durable, reachable from the root through durable entries
	seen := map[*inode]bool{}
	var inodes []*inode
	var rec func(n *inode)
	rec = func(n *inode) {
		if seen[n] {
			return
		}
		seen[n] = true
		inodes = append(inodes, n)
		if n.kind == kDir {
			n.ents = map[string]*inode{}
			names := make([]string, 0, len(n.dents))
			for k := range n.dents {
				names = append(names, k)
			}
			sort.Strings(names)
			for _, k := range names {
				n.ents[k] = n.dents[k]
				rec(n.dents[k])
			}
		}
	}
	rec(c.root)
	sort.Slice(inodes, func(i, j int) bool { return inodes[i].ino < inodes[j].ino })
	for _, n := range inodes {
		if n.kind != kFile {
			continue
		}
		if n.dirty {
			vs := dataVariants(n)
			v := vs[choose("pl-data", len(vs))]
			n.data = v
		} else {
			// clean in the cache is not the same as on disk: after a failed fsync the pages are
			// clean although they never got there
			n.data = append([]byte(nil), n.dur...)
		}
		n.dur = append([]byte(nil), n.data...)
		n.dirty = false
		n.writes = nil
	}
	c.Frozen = false
	c.Plan = nil
	return c
}

// KillImage is the post-process-kill file system: the volatile view survives unchanged.
func (f *FS) KillImage() *FS {
	f.mu.Lock()
	defer f.mu.Unlock()
	c, _ := f.cloneLocked()
	c.Frozen = false
	c.Plan = nil
	return c
}

// Clone deep-copies the file system (volatile and durable state, pending operations).
func (f *FS) Clone() *FS {
	f.mu.Lock()
	defer f.mu.Unlock()
	c, _ := f.cloneLocked()
	return c
}

func (f *FS) cloneLocked() (*FS, map[*inode]*inode) {
	c := &FS{nextIno: f.nextIno, Cwd: f.Cwd, KeepLog: f.KeepLog, KeepBytes: f.KeepBytes, Fired: map[string]int{},
		CrashMode: f.CrashMode, Choose: f.Choose, Now: f.Now, Enforce: f.Enforce, Umask: f.Umask, pendSeq: f.pendSeq,
		tmpCtr: f.tmpCtr, Frozen: f.Frozen, Mounts: append([]string(nil), f.Mounts...)}
	m := map[*inode]*inode{}
	var cp func(n *inode) *inode
	cp = func(n *inode) *inode {
		if n == nil {
			return nil
		}
		if x, ok := m[n]; ok {
			return x
		}
		x := &inode{ino: n.ino, kind: n.kind, perm: n.perm, dirty: n.dirty, target: n.target, mtime: n.mtime, lost: n.lost, lostAt: n.lostAt}
		m[n] = x
		x.data = append([]byte(nil), n.data...)
		x.dur = append([]byte(nil), n.dur...)
		for _, w := range n.writes {
			x.writes = append(x.writes, wr{w.off, append([]byte(nil), w.data...), w.trunc})
			if w.data == nil {
				x.writes[len(x.writes)-1].data = nil
			}
		}
		if n.kind == kDir {
			x.ents = map[string]*inode{}
			x.dents = map[string]*inode{}
			for k, v := range n.ents {
				x.ents[k] = cp(v)
			}
			for k, v := range n.dents {
				x.dents[k] = cp(v)
			}
		}
		return x
	}
	c.root = cp(f.root)
	for _, op := range f.pend {
		c.pend = append(c.pend, &dirOp{seq: op.seq, kind: op.kind, dir: cp(op.dir), name: op.name, node: cp(op.node), srcDir: cp(op.srcDir), src: op.src})
	}
	return c, m
}

// ---------------------------------------------------------------------------------
// observation helpers for the harness (not part of the os mirror)

// Entry is one object in a snapshot.
type Entry struct {
	Kind   string // file dir symlink fifo
	Perm   fs.FileMode
	Data   string
	Target string
}

// Snapshot returns the volatile tree below dir (real path) as path -> entry.
func (f *FS) Snapshot(dir string) map[string]Entry {
	f.mu.Lock()
	defer f.mu.Unlock()
	out := map[string]Entry{}
	r, e := f.resolve(dir, true)
	if e != 0 || r.node == nil {
		return out
	}
	var rec func(p string, n *inode)
	rec = func(p string, n *inode) {
		switch n.kind {
		case kFile:
			out[p] = Entry{Kind: "file", Perm: n.perm, Data: string(n.data)}
		case kSymlink:
			out[p] = Entry{Kind: "symlink", Perm: n.perm, Target: n.target}
		case kFifo:
			out[p] = Entry{Kind: "fifo", Perm: n.perm}
		case kDir:
			out[p] = Entry{Kind: "dir", Perm: n.perm}
			for k, c := range n.ents {
				rec(p+"/"+k, c)
			}
		}
	}
	rec(strings.TrimSuffix(r.real, "/"), r.node)
	return out
}

// SnapshotAll returns the whole volatile tree.
func (f *FS) SnapshotAll() map[string]Entry {
	m := f.Snapshot("/")
	out := map[string]Entry{}
	for k, v := range m {
		if k == "" {
			k = "/"
		}
		out[k] = v
	}
	return out
}

// DiffSnap describes the differences between two snapshots (sorted).
func DiffSnap(a, b map[string]Entry) []string {
	var out []string
	for k, va := range a {
		vb, ok := b[k]
		if !ok {
			out = append(out, "removed "+k)
		} else if va != vb {
			out = append(out, "changed "+k)
		}
	}
	for k := range b {
		if _, ok := a[k]; !ok {
			out = append(out, "added "+k)
		}
	}
	sort.Strings(out)
	return out
}

// Put writes a file directly (harness set-up / corruption behind the API); durable.
func (f *FS) Put(path string, data []byte, perm fs.FileMode) {
	f.mu.Lock()
	defer f.mu.Unlock()
	r, e := f.resolve(path, true)
	if e != 0 {
		panic(fmt.Sprintf("simfs.Put %q: %v", path, e))
	}
	n := r.node
	if n == nil {
		n = f.newInode(kFile, perm)
		r.parent.ents[r.name] = n
		r.parent.dents[r.name] = n
	}
	if n.kind != kFile {
		panic("simfs.Put on non-file " + path)
	}
	n.perm = perm
	n.data = append([]byte(nil), data...)
	n.syncData()
}

// PutDir creates a directory (and parents), durable.
func (f *FS) PutDir(path string, perm fs.FileMode) {
	f.mu.Lock()
	defer f.mu.Unlock()
	abs := lexClean(cleanAbs(f.Cwd, path))
	cur := f.root
	for _, c := range strings.Split(abs, "/") {
		if c == "" {
			continue
		}
		n := cur.ents[c]
		if n == nil {
			n = f.newInode(kDir, 0o755)
			cur.ents[c] = n
			cur.dents[c] = n
		}
		if n.kind == kSymlink {
			panic("simfs.PutDir through symlink")
		}
		cur = n
	}
	cur.perm = perm
}

// Mount makes path (created if missing, durable) the root of another device: rename and link
// between it and the rest fail with EXDEV. Everything else (durability model, crash images)
// is the same on all devices.
func (f *FS) Mount(path string) {
	f.PutDir(path, 0o755)
	f.Mounts = append(f.Mounts, path)
}

// devOf: index+1 of the longest mount point that contains the real path, 0 for the root device.
func (f *FS) devOf(real string) int {
	best, dev := -1, 0
	for i, m := range f.Mounts {
		if (real == m || strings.HasPrefix(real, m+"/")) && len(m) > best {
			best, dev = len(m), i+1
		}
	}
	return dev
}

// PutSymlink creates a symlink, durable.
func (f *FS) PutSymlink(target, path string) {
	f.mu.Lock()
	defer f.mu.Unlock()
	r, e := f.resolve(path, false)
	if e != 0 || r.node != nil {
		panic(fmt.Sprintf("simfs.PutSymlink %q: %v", path, e))
	}
	n := f.newInode(kSymlink, 0o777)
	n.target = target
	r.parent.ents[r.name] = n
	r.parent.dents[r.name] = n
}

// PutFifo creates a named pipe node, durable.
func (f *FS) PutFifo(path string, perm fs.FileMode) {
	f.mu.Lock()
	defer f.mu.Unlock()
	r, e := f.resolve(path, false)
	if e != 0 || r.node != nil {
		panic(fmt.Sprintf("simfs.PutFifo %q: %v", path, e))
	}
	n := f.newInode(kFifo, perm)
	r.parent.ents[r.name] = n
	r.parent.dents[r.name] = n
}

// Delete removes an entry directly (harness), durable.
func (f *FS) Delete(path string) {
	f.mu.Lock()
	defer f.mu.Unlock()
	r, e := f.resolve(path, false)
	if e != 0 || r.node == nil {
		return
	}
	delete(r.parent.ents, r.name)
	delete(r.parent.dents, r.name)
}

// SetPerm changes permission bits directly (harness).
func (f *FS) SetPerm(path string, perm fs.FileMode) {
	f.mu.Lock()
	defer f.mu.Unlock()
	r, e := f.resolve(path, true)
	if e != 0 || r.node == nil {
		panic("simfs.SetPerm " + path)
	}
	r.node.perm = perm
}

// Get returns the volatile content of a file.
func (f *FS) Get(path string) ([]byte, bool) {
	f.mu.Lock()
	defer f.mu.Unlock()
	r, e := f.resolve(path, true)
	if e != 0 || r.node == nil || r.node.kind != kFile {
		return nil, false
	}
	return append([]byte(nil), r.node.data...), true
}

// Names lists a directory's volatile entries, sorted.
func (f *FS) Names(path string) []string {
	f.mu.Lock()
	defer f.mu.Unlock()
	r, e := f.resolve(path, true)
	if e != 0 || r.node == nil || r.node.kind != kDir {
		return nil
	}
	var out []string
	for k := range r.node.ents {
		out = append(out, k)
	}
	sort.Strings(out)
	return out
}

// DurableInvariant walks the durable tree and calls fn for every durably linked regular
// file with its durable content (C09: a final name never points at non-durable content).
func (f *FS) DurableFiles(dir string) map[string]string {
	f.mu.Lock()
	defer f.mu.Unlock()
	out := map[string]string{}
	r, e := f.resolve(dir, true)
	if e != 0 || r.node == nil {
		return out
	}
	seen := map[*inode]bool{}
	var rec func(p string, n *inode)
	rec = func(p string, n *inode) {
		if n.kind == kFile {
			out[p] = string(n.dur)
			return
		}
		if n.kind != kDir || seen[n] {
			return
		}
		seen[n] = true
		for k, c := range n.dents {
			rec(p+"/"+k, c)
		}
	}
	rec(strings.TrimSuffix(r.real, "/"), r.node)
	return out
}

// ResetLog clears the operation log and counters (not the state).
func (f *FS) ResetLog() {
	f.mu.Lock()
	defer f.mu.Unlock()
	f.Log = nil
	f.NOps = 0
	f.Mutations = 0
}

// DurableCandidates returns, for every name in directory dir, every content that name
// may show after a power loss now: the durably linked inode and every inode a pending
// link/rename would give that name, each with every data variant the persistence model
// allows (C09: a name never points at content that is not yet durable).
func (f *FS) DurableCandidates(dir string) map[string][]string {
	f.mu.Lock()
	defer f.mu.Unlock()
	out := map[string][]string{}
	r, e := f.resolve(dir, true)
	if e != 0 || r.node == nil || r.node.kind != kDir {
		return out
	}
	d := r.node
	cands := map[string][]*inode{}
	for k, n := range d.dents {
		cands[k] = append(cands[k], n)
	}
	for _, op := range f.pend {
		if op.dir == d && (op.kind == "link" || op.kind == "rename") && op.node != nil {
			cands[op.name] = append(cands[op.name], op.node)
		}
	}
	for k, ns := range cands {
		seen := map[string]bool{}
		for _, n := range ns {
			if n.kind != kFile {
				continue
			}
			vs := [][]byte{n.dur}
			if n.dirty {
				vs = dataVariants(n)
			}
			for _, v := range vs {
				if !seen[string(v)] {
					seen[string(v)] = true
					out[k] = append(out[k], string(v))
				}
			}
		}
	}
	return out
}
