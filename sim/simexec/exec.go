// Package simexec is the simulated fork/exec of DESIGN.md 2.5: the agent's hooks.go
// imports it under the local name "exec". Every start is logged with the fake time,
// argv and environment; what a process does (exit after a delay, exit non-zero, hang
// until killed, fail to start) is decided per path by the harness.
package simexec

import (
	"path/filepath"
	"context"
	"errors"
	"os"
	"fmt"
	"io"
	"sync"
	"syscall"
	"time"

	"github.com/whawty/auth/zzverif/simrt"
)

type Behaviour struct {
	StartErr  error         // Start fails with this error
	Hang      bool          // never exits unless killed
	ExitAfter time.Duration // otherwise exits after this long
	ExitCode  int
	IgnoreTerm bool // SIGTERM has no effect (a hook that traps it); only SIGKILL ends it
}

type Proc struct {
	ID       int
	Path     string
	Args     []string
	Env      []string
	StartAt  time.Time
	KilledAt time.Time
	Killed   bool
	Exited   bool
	ExitAt   time.Time
	StartFailed bool
	Signals  []string // catchable signals delivered without effect
	Step     int // scheduler step of the start (set by the harness through OnStart)
	kill     chan struct{}
	b        Behaviour
}

type World struct {
	mu      sync.Mutex
	Procs   []*Proc
	Behave  func(path string) Behaviour
	Failed  []string // starts that failed: path + error
	OnStart func(p *Proc) // called (with the world locked) for every start attempt, successful or not
	Cwd     func() string          // working directory of the simulated process (relative program paths)
	Exists  func(abs string) bool  // does the program file exist (nil: every path does)
}

var Cur *World

func NewWorld() *World { return &World{} }

func (w *World) Snapshot() []*Proc {
	w.mu.Lock()
	defer w.mu.Unlock()
	return append([]*Proc(nil), w.Procs...)
}

type ProcessState struct {
	code   int
	killed bool
}

func (p *ProcessState) String() string {
	if p == nil {
		return "<nil>"
	}
	if p.killed {
		return "signal: killed"
	}
	return fmt.Sprintf("exit status %d", p.code)
}
func (p *ProcessState) ExitCode() int { if p.killed { return -1 }; return p.code }
func (p *ProcessState) Success() bool { return !p.killed && p.code == 0 }
func (p *ProcessState) Exited() bool  { return !p.killed }
func (p *ProcessState) Pid() int      { return 1000 }

type ExitError struct {
	*ProcessState
	Stderr []byte
}

func (e *ExitError) Error() string { return e.ProcessState.String() }

type Error struct {
	Name string
	Err  error
}

func (e *Error) Error() string { return "exec: " + e.Name + ": " + e.Err.Error() }
func (e *Error) Unwrap() error { return e.Err }

var ErrNotFound = errors.New("executable file not found in $PATH")

type Process struct {
	Pid int
	p   *Proc
	w   *World
}

func (p *Process) Kill() error {
	p.w.mu.Lock()
	defer p.w.mu.Unlock()
	if p.p.Exited {
		return errors.New("os: process already finished")
	}
	if !p.p.Killed {
		p.p.Killed = true
		p.p.KilledAt = time.Now()
		close(p.p.kill)
	}
	return nil
}
// Signal: SIGKILL always kills; SIGTERM / SIGINT / SIGHUP kill unless the process ignores
// them (Behaviour.IgnoreTerm); anything else is delivered without effect.
func (p *Process) Signal(sig os.Signal) error {
	if sig == syscall.SIGKILL || sig == os.Kill {
		return p.Kill()
	}
	if sig == syscall.SIGTERM || sig == syscall.SIGINT || sig == syscall.SIGHUP || sig == os.Interrupt {
		if p.p.b.IgnoreTerm {
			p.w.mu.Lock()
			p.p.Signals = append(p.p.Signals, sig.String())
			p.w.mu.Unlock()
			return nil
		}
		return p.Kill()
	}
	return nil
}
func (p *Process) Release() error       { return nil }

type Cmd struct {
	Path         string
	Args         []string
	Env          []string
	Dir          string
	Stdin        io.Reader
	Stdout       io.Writer
	Stderr       io.Writer
	Process      *Process
	ProcessState *ProcessState
	SysProcAttr  *syscall.SysProcAttr
	Cancel       func() error
	WaitDelay    time.Duration
	started      bool
	waited       bool
	ctx          context.Context
}

func Command(name string, arg ...string) *Cmd {
	return &Cmd{Path: name, Args: append([]string{name}, arg...)}
}

// CommandContext: the process is killed when ctx is done.
func CommandContext(ctx context.Context, name string, arg ...string) *Cmd {
	c := Command(name, arg...)
	c.ctx = ctx
	return c
}

func LookPath(file string) (string, error) { return file, nil }

func (c *Cmd) String() string { return fmt.Sprint(c.Args) }

func (c *Cmd) Start() error {
	if c.started {
		return errors.New("exec: already started")
	}
	simrt.Yield("exec:" + c.Path) // every process start is a scheduling point for scheduler-owned goroutines
	w := Cur
	// the path the kernel would execute: a relative program path is resolved in the child's
	// working directory, which is cmd.Dir when that is set
	eff := c.Path
	if !filepath.IsAbs(eff) {
		base := c.Dir
		if base == "" && w.Cwd != nil {
			base = w.Cwd()
		} else if base != "" && !filepath.IsAbs(base) && w.Cwd != nil {
			base = filepath.Join(w.Cwd(), base)
		}
		if base != "" {
			eff = filepath.Join(base, eff)
		}
	}
	eff = filepath.Clean(eff)
	missing := w.Exists != nil && !w.Exists(eff) // looks at the simulated disk: before this world's lock is taken
	w.mu.Lock()
	defer w.mu.Unlock()
	var b Behaviour
	if w.Behave != nil {
		b = w.Behave(eff)
	}
	if b.StartErr == nil && missing {
		b.StartErr = syscall.ENOENT
	}
	p := &Proc{ID: len(w.Procs), Path: eff, Args: append([]string(nil), c.Args...), Env: append([]string(nil), c.Env...), StartAt: time.Now(), kill: make(chan struct{}), b: b}
	if w.OnStart != nil {
		w.OnStart(p)
	}
	if b.StartErr != nil {
		w.Failed = append(w.Failed, c.Path+": "+b.StartErr.Error())
		p.StartFailed = true
		w.Procs = append(w.Procs, p)
		return &Error{Name: c.Path, Err: b.StartErr}
	}
	c.started = true
	w.Procs = append(w.Procs, p)
	c.Process = &Process{Pid: 1000 + p.ID, p: p, w: w}
	if c.ctx != nil {
		go func(pr *Process, ctx context.Context) {
			select {
			case <-ctx.Done():
				pr.Kill() //nolint
			case <-pr.p.kill:
			}
		}(c.Process, c.ctx)
	}
	return nil
}

func (c *Cmd) Wait() error {
	if !c.started {
		return errors.New("exec: not started")
	}
	if c.waited {
		return errors.New("exec: Wait was already called")
	}
	c.waited = true
	p := c.Process.p
	killed := false
	if p.b.Hang {
		<-p.kill
		killed = true
	} else {
		t := time.NewTimer(p.b.ExitAfter)
		select {
		case <-p.kill:
			killed = true
			t.Stop()
		case <-t.C:
		}
	}
	w := c.Process.w
	w.mu.Lock()
	p.Exited = true
	p.ExitAt = time.Now()
	w.mu.Unlock()
	c.ProcessState = &ProcessState{code: p.b.ExitCode, killed: killed}
	if killed || p.b.ExitCode != 0 {
		return &ExitError{ProcessState: c.ProcessState}
	}
	return nil
}

func (c *Cmd) Run() error {
	if err := c.Start(); err != nil {
		return err
	}
	return c.Wait()
}

func (c *Cmd) Output() ([]byte, error)         { return nil, c.Run() }
func (c *Cmd) CombinedOutput() ([]byte, error) { return nil, c.Run() }
func (c *Cmd) Environ() []string               { return c.Env }
