// Package simsignal replaces os/signal for the agent: Notify records the channel, the
// scheduler's Raise does what the runtime does -- a non-blocking send.
package simsignal

import (
	"os"
	"sync"
)

type reg struct {
	c    chan<- os.Signal
	sigs []os.Signal
}

var (
	mu   sync.Mutex
	regs []reg
	// Dropped counts signals that found the channel full (coalesced).
	Dropped int
)

func Reset() { mu.Lock(); regs = nil; Dropped = 0; mu.Unlock() }

func Notify(c chan<- os.Signal, sig ...os.Signal) {
	mu.Lock()
	regs = append(regs, reg{c, sig})
	mu.Unlock()
}

func Stop(c chan<- os.Signal) {
	mu.Lock()
	var out []reg
	for _, r := range regs {
		if r.c != c {
			out = append(out, r)
		}
	}
	regs = out
	mu.Unlock()
}

func Ignore(sig ...os.Signal) {}
func Reset2(sig ...os.Signal) {}

// Raise delivers sig to every registered channel; idx < 0 = all registrations, otherwise
// only the idx-th (one simulated process). Returns how many sends succeeded.
func Raise(sig os.Signal, idx int) int {
	mu.Lock()
	defer mu.Unlock()
	n := 0
	for i, r := range regs {
		if idx >= 0 && i != idx {
			continue
		}
		match := len(r.sigs) == 0
		for _, s := range r.sigs {
			if s == sig {
				match = true
			}
		}
		if !match {
			continue
		}
		select {
		case r.c <- sig:
			n++
		default:
			Dropped++
		}
	}
	return n
}

// Registrations reports how many Notify calls are active.
func Registrations() int { mu.Lock(); defer mu.Unlock(); return len(regs) }

// Pending reports how many signals are queued (sent, not yet received).
func Pending() int {
	mu.Lock()
	defer mu.Unlock()
	n := 0
	for _, r := range regs {
		n += len(r.c)
	}
	return n
}
