// Package simfilepath stands in for path/filepath in the repository's own packages. The
// lexical functions are the real ones; the functions that look at the file system
// (EvalSymlinks, Glob, Walk, WalkDir, Abs) look at the simulated one - otherwise a changed
// tree that starts using them would silently consult the sandbox's real disk.
package simfilepath

import (
	"io/fs"
	realfp "path/filepath"
	"sort"
	"strings"
	"syscall"

	"github.com/whawty/auth/zzverif/simfs"
)

const (
	Separator     = realfp.Separator
	ListSeparator = realfp.ListSeparator
)

var (
	ErrBadPattern = realfp.ErrBadPattern
	SkipDir       = realfp.SkipDir
	SkipAll       = realfp.SkipAll
)

type WalkFunc = realfp.WalkFunc

func Join(elem ...string) string                { return realfp.Join(elem...) }
func Dir(p string) string                       { return realfp.Dir(p) }
func Base(p string) string                      { return realfp.Base(p) }
func Ext(p string) string                       { return realfp.Ext(p) }
func Clean(p string) string                     { return realfp.Clean(p) }
func Split(p string) (string, string)           { return realfp.Split(p) }
func SplitList(p string) []string               { return realfp.SplitList(p) }
func Rel(base, targ string) (string, error)     { return realfp.Rel(base, targ) }
func IsAbs(p string) bool                       { return realfp.IsAbs(p) }
func IsLocal(p string) bool                     { return realfp.IsLocal(p) }
func Match(pattern, name string) (bool, error)  { return realfp.Match(pattern, name) }
func ToSlash(p string) string                   { return realfp.ToSlash(p) }
func FromSlash(p string) string                 { return realfp.FromSlash(p) }
func VolumeName(p string) string                { return realfp.VolumeName(p) }
func Localize(p string) (string, error)         { return realfp.Localize(p) }

func Abs(p string) (string, error) {
	if realfp.IsAbs(p) {
		return realfp.Clean(p), nil
	}
	wd, _ := simfs.Getwd()
	return realfp.Join(wd, p), nil
}

// EvalSymlinks resolves every symbolic link of path in the simulated file system.
func EvalSymlinks(path string) (string, error) {
	if path == "" {
		return "", nil
	}
	real, errno := simfs.RealPath(path)
	if errno != 0 {
		return "", &fs.PathError{Op: "lstat", Path: path, Err: errno}
	}
	if !realfp.IsAbs(path) {
		wd, _ := simfs.Getwd()
		if rel, err := realfp.Rel(wd, real); err == nil {
			return rel, nil
		}
	}
	return real, nil
}

func hasMeta(p string) bool { return strings.ContainsAny(p, `*?[\`) }

// Glob follows the standard library's algorithm over the simulated file system.
func Glob(pattern string) (matches []string, err error) {
	if _, err := realfp.Match(pattern, ""); err != nil {
		return nil, err
	}
	if !hasMeta(pattern) {
		if _, err := simfs.Lstat(pattern); err != nil {
			return nil, nil
		}
		return []string{pattern}, nil
	}
	dir, file := realfp.Split(pattern)
	dir = cleanGlobPath(dir)
	if !hasMeta(dir) {
		return glob(dir, file, nil)
	}
	if dir == pattern {
		return nil, realfp.ErrBadPattern
	}
	m, err := Glob(dir)
	if err != nil {
		return nil, err
	}
	for _, d := range m {
		matches, err = glob(d, file, matches)
		if err != nil {
			return
		}
	}
	return
}

func cleanGlobPath(p string) string {
	switch p {
	case "":
		return "."
	case "/":
		return p
	default:
		return p[:len(p)-1]
	}
}

func glob(dir, pattern string, matches []string) ([]string, error) {
	fi, err := simfs.Stat(dir)
	if err != nil || !fi.IsDir() {
		return matches, nil
	}
	ents, err := simfs.ReadDir(dir)
	if err != nil {
		return matches, nil
	}
	var names []string
	for _, e := range ents {
		names = append(names, e.Name())
	}
	sort.Strings(names)
	for _, n := range names {
		ok, err := realfp.Match(pattern, n)
		if err != nil {
			return matches, err
		}
		if ok {
			matches = append(matches, realfp.Join(dir, n))
		}
	}
	return matches, nil
}

// Walk / WalkDir: lexical order, symbolic links are not followed.
func Walk(root string, fn WalkFunc) error {
	info, err := simfs.Lstat(root)
	if err != nil {
		err = fn(root, nil, err)
	} else {
		err = walk(root, info, fn)
	}
	if err == SkipDir || err == SkipAll {
		return nil
	}
	return err
}

func walk(path string, info fs.FileInfo, fn WalkFunc) error {
	if !info.IsDir() {
		return fn(path, info, nil)
	}
	ents, rerr := simfs.ReadDir(path)
	if err := fn(path, info, rerr); rerr != nil || err != nil {
		return err
	}
	var names []string
	for _, e := range ents {
		names = append(names, e.Name())
	}
	sort.Strings(names)
	for _, n := range names {
		p := realfp.Join(path, n)
		fi, err := simfs.Lstat(p)
		if err != nil {
			if err := fn(p, fi, err); err != nil && err != SkipDir {
				return err
			}
			continue
		}
		if err := walk(p, fi, fn); err != nil {
			if !fi.IsDir() || err != SkipDir {
				return err
			}
		}
	}
	return nil
}

func WalkDir(root string, fn fs.WalkDirFunc) error {
	return Walk(root, func(path string, info fs.FileInfo, err error) error {
		var d fs.DirEntry
		if info != nil {
			d = fs.FileInfoToDirEntry(info)
		}
		return fn(path, d, err)
	})
}

var _ = syscall.ENOENT
