// Package simrandv2 stands in for math/rand/v2 (see simrand).
package simrandv2

import (
	"math/rand/v2"
	"sync"
)

type (
	Rand     = rand.Rand
	Source   = rand.Source
	PCG      = rand.PCG
	ChaCha8  = rand.ChaCha8
	Zipf     = rand.Zipf
)

var (
	mu sync.Mutex
	g  = rand.New(rand.NewPCG(1, 2))
)

func Reseed(seed uint64) { mu.Lock(); g = rand.New(rand.NewPCG(seed, seed^0x9e3779b97f4a7c15)); mu.Unlock() }

func New(src Source) *Rand             { return rand.New(src) }
func NewPCG(s1, s2 uint64) *PCG        { return rand.NewPCG(s1, s2) }
func NewChaCha8(seed [32]byte) *ChaCha8 { return rand.NewChaCha8(seed) }
func NewZipf(r *Rand, s float64, v float64, imax uint64) *Zipf { return rand.NewZipf(r, s, v, imax) }

func Int() int                  { mu.Lock(); defer mu.Unlock(); return g.Int() }
func IntN(n int) int            { mu.Lock(); defer mu.Unlock(); return g.IntN(n) }
func Int32() int32              { mu.Lock(); defer mu.Unlock(); return g.Int32() }
func Int32N(n int32) int32      { mu.Lock(); defer mu.Unlock(); return g.Int32N(n) }
func Int64() int64              { mu.Lock(); defer mu.Unlock(); return g.Int64() }
func Int64N(n int64) int64      { mu.Lock(); defer mu.Unlock(); return g.Int64N(n) }
func Uint32() uint32            { mu.Lock(); defer mu.Unlock(); return g.Uint32() }
func Uint32N(n uint32) uint32   { mu.Lock(); defer mu.Unlock(); return g.Uint32N(n) }
func Uint64() uint64            { mu.Lock(); defer mu.Unlock(); return g.Uint64() }
func Uint64N(n uint64) uint64   { mu.Lock(); defer mu.Unlock(); return g.Uint64N(n) }
func UintN(n uint) uint         { mu.Lock(); defer mu.Unlock(); return g.UintN(n) }
func Float32() float32          { mu.Lock(); defer mu.Unlock(); return g.Float32() }
func Float64() float64          { mu.Lock(); defer mu.Unlock(); return g.Float64() }
func ExpFloat64() float64       { mu.Lock(); defer mu.Unlock(); return g.ExpFloat64() }
func NormFloat64() float64      { mu.Lock(); defer mu.Unlock(); return g.NormFloat64() }
func Perm(n int) []int          { mu.Lock(); defer mu.Unlock(); return g.Perm(n) }
func Shuffle(n int, swap func(i, j int)) { mu.Lock(); defer mu.Unlock(); g.Shuffle(n, swap) }
func N[Int interface{ ~int | ~int8 | ~int16 | ~int32 | ~int64 | ~uint | ~uint8 | ~uint16 | ~uint32 | ~uint64 | ~uintptr }](n Int) Int {
	mu.Lock()
	defer mu.Unlock()
	return Int(g.Uint64N(uint64(n)))
}
