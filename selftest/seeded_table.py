#!/usr/bin/env python3
"""Builds the table of DESIGN.md section 7 from seeded/*/meta.json and the evaluation
report(s) (lines '<change>: caught <check>: signature: <sig>' / '<change>: MISSED <check>')."""
import glob, json, os, re, sys, collections
V = os.path.dirname(os.path.dirname(os.path.abspath(__file__)))
reports = sys.argv[1:] or [os.path.join(V, 'selftest', 'seeded_report_all.txt')]
res = collections.defaultdict(dict)
for rp in reports:
    for l in open(rp):
        m = re.match(r'(\S+): (caught|MISSED|ERROR)\s+(C\d\d)(?:: signature: (\S+))?', l)
        if m:
            ch, st, chk, sig = m.groups()
            res[ch][chk] = sig if st == 'caught' else st
def short(s, n):
    s = ' '.join(s.split())
    s = s.replace('|', '/')
    return s if len(s) <= n else s[:n - 1].rsplit(' ', 1)[0] + ' …'
rows = []
for d in sorted(glob.glob(os.path.join(V, 'seeded', '*'))):
    ch = os.path.basename(d)
    try:
        meta = json.load(open(os.path.join(d, 'meta.json')))
    except Exception:
        continue
    got = res.get(ch, {})
    own = meta.get('property', ch[:3])
    cells = []
    for chk in sorted(got, key=lambda c: (c != own, c)):
        v = got[chk]
        cells.append(f"{chk}: `{v}`" if v not in ('MISSED', 'ERROR') else f"{chk}: **{v.lower()}**")
    rows.append((ch, short(meta.get('summary', ''), 230), short(meta.get('needs_to_manifest', meta.get('needs', '')), 150), '; '.join(cells) or 'not evaluated'))
print('| change | what it does | what it needs to show | caught by (check: violation signature) |')
print('|---|---|---|---|')
for r in rows:
    print('| ' + ' | '.join(r) + ' |')
own_caught = sum(1 for ch, g in res.items() if g.get(ch[:3]) not in (None, 'MISSED', 'ERROR'))
any_caught = sum(1 for ch, g in res.items() if any(v not in ('MISSED', 'ERROR') for v in g.values()))
print()
print(f"{len(rows)} changes; {own_caught} caught by the check of their own property, {any_caught} caught by at least one check.")
