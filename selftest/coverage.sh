#!/bin/bash
# Reach measurement: which statements of the repo's Go packages does the union of all checks
# execute? Builds the harness binaries with -cover (same overlay as the checks), runs every
# property for N runs in one process each and merges the profiles. Lines that no check ever
# executes cannot be guarded by any check; the report lists them per file.
#   selftest/coverage.sh [runs-per-property]      (scratch under $TMPDIR, removed at the end)
set -u
V=$(cd "$(dirname "$0")/.." && pwd)
N=${1:-300}
export GOFLAGS=-mod=mod GOPROXY=off GOSUMDB=off GOTOOLCHAIN=local
GO=/opt/veriftools/go1.26.8/bin/go
REPO=${VERIF_REPO:-/repo}
S=$(mktemp -d "${TMPDIR:-/tmp}/verif-cov.XXXXXX")
trap 'rm -rf "$S"' EXIT
(cd "$V" && ./check gen >/dev/null 2>&1) || { echo "gen failed"; exit 2; }
G=$(ls -td "$V"/.build/*/overlay.json | head -1); G=$(dirname "$G")
PKGS=github.com/whawty/auth/store,github.com/whawty/auth/sasl,github.com/whawty/auth/cmd/whawty-auth
# go's cover step ignores -overlay for replaced files (1.26.8), so the overlay is applied
# physically to a scratch copy of the repo instead
rsync -a --exclude .git "$REPO"/ "$S/repo"/
python3 - "$G/overlay.json" "$REPO" "$S/repo" <<'PY'
import json,sys,os,shutil
ov=json.load(open(sys.argv[1]))['Replace']; repo,dst=sys.argv[2],sys.argv[3]
for tgt,src in ov.items():
    t=dst+tgt[len(repo):] if tgt.startswith(repo) else None
    if t is None: continue
    if src=="":
        if os.path.exists(t): os.remove(t)
    else:
        os.makedirs(os.path.dirname(t),exist_ok=True); shutil.copyfile(src,t)
PY
for p in store sasl cmd/whawty-auth; do
  n=$(basename $p); [ "$n" = whawty-auth ] && n=agent
  (cd "$S/repo" && $GO test -c -cover -covermode=count -coverpkg=$PKGS -tags verif -vet=off -modfile "$G/go.mod" -o "$S/$n.test" ./$p) || { echo "build $p failed"; exit 2; }
done
PAM=$(ls "$V"/.build/pam/*/pamsim 2>/dev/null | head -1)
run() { # prop pkg
  VERIF_PROP=$1 VERIF_TIER=quick VERIF_BASE=1 VERIF_FROM=0 VERIF_TO=$N VERIF_STRIDE=1 VERIF_BUDGET_MS=600000 \
  VERIF_OUT="$S/$1-$2.out" VERIF_CUR="$S/$1-$2.cur" VERIF_NOMIN=1 VERIF_PAMSIM="$PAM" VERIF_KNOWN="$(jq -r '[.known[]?.signature]|join(",")' "$V/known_findings.json" 2>/dev/null)" \
  "$S/$2.test" -test.run '^TestVerif$' -test.timeout 0 -test.count 1 -test.coverprofile="$S/$1-$2.cov" >/dev/null 2>&1
}
for id in C01 C02 C03 C08 C09 C14 C15 C16; do run $id store & done; wait
for id in C05 C13; do run $id sasl & done
for id in C03 C04 C06 C07 C08 C10 C11 C12 C14 C15 C16 C17 C18 C19; do run $id agent & done; wait
ls "$S"/*.cov >/dev/null 2>&1 || { echo "no profiles"; exit 2; }
python3 - "$S" "$REPO" <<'PY'
import sys,glob,re,collections,os
S,repo=sys.argv[1],sys.argv[2]
cnt=collections.defaultdict(int); by=collections.defaultdict(set)
for f in glob.glob(S+'/*.cov'):
    prop=os.path.basename(f).split('-')[0]
    for l in open(f):
        if l.startswith('mode:'): continue
        m=re.match(r'(.+):(\d+)\.\d+,(\d+)\.\d+ (\d+) (\d+)$',l.strip())
        if not m: continue
        fn,a,b,ns,c=m.group(1),int(m.group(2)),int(m.group(3)),int(m.group(4)),int(m.group(5))
        if '/zzverif/' in fn or fn.endswith('_test.go') or '/zz_' in fn: continue
        cnt[(fn,a,b)]+=c
        if c: by[(fn,a,b)].add(prop)
files=collections.defaultdict(list)
for (fn,a,b),c in cnt.items(): files[fn].append((a,b,c))
tot=cov=0
for fn in sorted(files):
    bl=sorted(files[fn]); t=len(bl); c=sum(1 for x in bl if x[2]); tot+=t; cov+=c
    print(f"{fn}: {c}/{t} blocks executed")
    src=None
    p=os.path.join(repo,fn.replace('github.com/whawty/auth/',''))
    try: src=open(p).read().split('\n')
    except Exception: pass
    for a,b,cc in bl:
        if cc==0:
            line=src[a-1].strip()[:90] if src and a-1<len(src) else ''
            print(f"    not executed {a}-{b}: {line}")
print(f"TOTAL {cov}/{tot} blocks")
PY
