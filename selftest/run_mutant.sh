#!/bin/bash
# usage: selftest/run_mutant.sh <patch-or-sed-script> <property id>...
# Applies a mutant to a scratch copy of /repo (outside /repo and /verif), runs the given
# checks against it with VERIF_REPO, prints caught/MISSED per property, removes the copy.
set -u
M="$(readlink -f "$1")"; shift
S=$(mktemp -d /tmp/mutant.XXXXXX)
trap 'rm -rf "$S"' EXIT
rsync -a --exclude .git /repo/ "$S/"
if [[ "$M" == *.diff || "$M" == *.patch ]]; then
  (cd "$S" && patch -p1 -s < "$M") || { echo "patch failed"; exit 2; }
else
  (cd "$S" && bash "$M") || { echo "mutation script failed"; exit 2; }
fi
(cd "$S" && GOFLAGS=-mod=mod GOPROXY=off go build ./... ) || { echo "mutant does not build"; exit 2; }
rc=0
for id in "$@"; do
  out=$(VERIF_REPO="$S" VERIF_NO_EVIDENCE=1 /verif/check "$id" --tier "${TIER:-quick}" 2>&1); st=$?
  if [ $st -eq 1 ]; then echo "caught  $id  $(basename "$M"): $(echo "$out" | grep -m1 signature)"; 
  elif [ $st -eq 0 ]; then echo "MISSED  $id  $(basename "$M")"; rc=1
  else echo "ERROR   $id  $(basename "$M") (exit $st)"; echo "$out" | tail -5; rc=1; fi
done

exit $rc
