#!/bin/bash
# usage: selftest/eval_seeded.sh <dir with patch.diff, demo/run.sh, meta.json> [property ids to check...]
# 1. confirms the seeded change in a scratch copy of /repo: applies, builds, baseline suite passes,
#    demonstration fails with it and passes without it;
# 2. runs the given checks (default: the property named in meta.json) against the changed copy.
# Scratch copies live under /tmp and are removed on exit.
set -u
D="$(readlink -f "$1")"; shift
export GOFLAGS=-mod=mod GOPROXY=off GOSUMDB=off GOTOOLCHAIN=local
A=$(mktemp -d /tmp/seeded-with.XXXXXX); B=$(mktemp -d /tmp/seeded-without.XXXXXX)
trap 'rm -rf "$A" "$B"' EXIT
rsync -a --exclude .git /repo/ "$A/"; rsync -a --exclude .git /repo/ "$B/"
(cd "$A" && git init -q . && git apply --whitespace=nowarn "$D/patch.diff") || { echo "RESULT patch-does-not-apply"; exit 2; }
rm -rf "$A/.git"
(cd "$A" && go build ./... ) >/dev/null 2>&1 || { echo "RESULT does-not-build"; exit 2; }
if ! (cd "$A" && go test -vet=off -count=1 ./... ) >"$A/.suite.log" 2>&1; then echo "RESULT baseline-suite-fails-with-patch"; tail -5 "$A/.suite.log"; exit 2; fi
if [ -x "$D/demo/run.sh" ] || [ -f "$D/demo/run.sh" ]; then
  (cd "$D/demo" && timeout 600 bash ./run.sh "$A") >"$A/.demo.log" 2>&1; with=$?
  (cd "$D/demo" && timeout 600 bash ./run.sh "$B") >"$B/.demo.log" 2>&1; without=$?
  echo "demo: with patch exit=$with, without patch exit=$without"
  if [ $with -eq 0 ] || [ $without -ne 0 ]; then echo "RESULT demo-not-convincing"; tail -5 "$A/.demo.log"; tail -5 "$B/.demo.log"; exit 2; fi
else echo "RESULT no-demo"; exit 2; fi
# clean what the demo may have left in the copy
find "$A" -name '*_test.go' -newer "$D/patch.diff" -path '*demo*' -delete 2>/dev/null
ids="$*"; [ -z "$ids" ] && ids=$(python3 -c "import json,sys;print(json.load(open('$D/meta.json'))['property'])")
rc=0
for id in $ids; do
  out=$(VERIF_REPO="$A" "$(dirname "$0")/../check" "$id" --tier "${TIER:-quick}" 2>&1); st=$?
  if [ $st -eq 1 ]; then echo "caught  $id: $(echo "$out" | grep -a -m1 signature | sed 's/^ *//')"
  elif [ $st -eq 0 ]; then echo "MISSED  $id"; rc=1
  else echo "ERROR   $id (exit $st)"; echo "$out" | tail -6; rc=1; fi
done
exit $rc
