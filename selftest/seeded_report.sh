#!/bin/bash
# Re-evaluates every seeded change under /verif/seeded against the checks named in its
# meta.json ("property" plus "also_checked") and prints one line per (change, check).
cd "$(dirname "$0")/.."
for d in seeded/*/; do
  n=$(basename $d)
  ids=$(python3 -c "import json;m=json.load(open('$d/meta.json'));print(' '.join([m['property']]+m.get('also_checked',[])))")
  out=$(timeout 1800 selftest/eval_seeded.sh $d $ids 2>&1 | grep -aE "^(caught|MISSED|ERROR|RESULT)")
  echo "$out" | sed "s/^/$n: /"
done
