package main

import (
	"fmt"
	"os"
	"os/exec"
	"path/filepath"
)

// buildPam compiles /repo/pam/pam_whawty.c (unmodified) together with the C simulator
// (DESIGN.md 2.10) with clang, ASan and UBSan. Always rebuilt: it takes about a second.
func buildPam(verifDir, repo string) (string, error) {
	dir := filepath.Join(verifDir, ".build", "pam")
	if err := os.MkdirAll(dir, 0o755); err != nil {
		return "", err
	}
	bin := filepath.Join(dir, fmt.Sprintf("pamsim-%d", os.Getpid()))
	final := filepath.Join(dir, "pamsim")
	ps := filepath.Join(verifDir, "pamsim")
	args := []string{"-g", "-O1", "-fsanitize=address,undefined", "-fno-sanitize-recover=undefined", "-fno-omit-frame-pointer",
		"-I", filepath.Join(ps, "include"), "-include", filepath.Join(ps, "shim.h"),
		"-Wno-pointer-arith", "-Wno-unused-parameter",
		"-o", bin, filepath.Join(ps, "driver.c"), filepath.Join(repo, "pam", "pam_whawty.c")}
	cmd := exec.Command("clang", args...)
	out, err := cmd.CombinedOutput()
	if err != nil {
		return "", fmt.Errorf("%v\n%s", err, out)
	}
	if err := os.Rename(bin, final); err != nil {
		return "", err
	}
	return final, nil
}
