package main

import (
	"fmt"
	"os"
	"os/exec"
	"path/filepath"
)

// buildPam compiles /repo/pam/pam_whawty.c (unmodified) together with the C simulator
// (DESIGN.md 2.10) with clang, ASan and UBSan. Always rebuilt: it takes about a second.
func buildPam(verifDir, repo string) (string, error) {
	dir := filepath.Join(verifDir, ".build", "pam")
	if err := os.MkdirAll(dir, 0o755); err != nil {
		return "", err
	}
	bin := filepath.Join(dir, fmt.Sprintf("pamsim-%d", os.Getpid()))
	final := filepath.Join(dir, "pamsim")
	ps := filepath.Join(verifDir, "pamsim")
	common := []string{"-g", "-O1", "-fsanitize=address,undefined", "-fno-sanitize-recover=undefined", "-fno-omit-frame-pointer",
		"-I", filepath.Join(ps, "include"), "-include", filepath.Join(ps, "shim.h"), "-Wno-pointer-arith", "-Wno-unused-parameter"}
	objD := filepath.Join(dir, fmt.Sprintf("driver-%d.o", os.Getpid()))
	objM := filepath.Join(dir, fmt.Sprintf("module-%d.o", os.Getpid()))
	defer os.Remove(objD)
	defer os.Remove(objM)
	steps := [][]string{
		append(append([]string{}, common...), "-DSIM_DRIVER", "-c", "-o", objD, filepath.Join(ps, "driver.c")),
		append(append([]string{}, common...), "-c", "-o", objM, filepath.Join(repo, "pam", "pam_whawty.c")), // the module, unmodified
		{"-fsanitize=address,undefined", "-o", bin, objD, objM},
	}
	for _, a := range steps {
		cmd := exec.Command("clang", a...)
		out, err := cmd.CombinedOutput()
		if err != nil {
			return "", fmt.Errorf("clang %v: %v\n%s", a, err, out)
		}
	}
	if err := os.Rename(bin, final); err != nil {
		return "", err
	}
	return final, nil
}
