package main

// simgen: the source transformer of DESIGN.md 2.1.
//
// It reads the non-test Go files of ./store, ./sasl and ./cmd/whawty-auth from the tree
// under verification (VERIF_REPO, default /repo) as that tree is NOW, writes transformed
// copies to a build directory and emits an overlay.json for `go test -overlay`:
//
//   1. imports of os, net, os/exec and os/signal are redirected to the simulator
//      packages (overlaid into the module as github.com/whawty/auth/zzverif/...); the
//      local name is kept, so no other identifier changes. Edits are textual splices, so
//      every line keeps its number.
//   2. every select with >= 2 communication clauses is rewritten into scheduler-ordered
//      single-case probes followed by the original blocking select (see rewriteSelect).
//      `//line` directives re-synchronise positions after each splice.
//
// The overlay also adds the simulator packages, the harness _test.go files (build tag
// verif) and maps the repository's own *_test.go files to "" (deleted) for harness builds.

import (
	"bytes"
	"crypto/sha256"
	"encoding/hex"
	"encoding/json"
	"fmt"
	"go/ast"
	"go/parser"
	"go/token"
	"os"
	"os/exec"
	"path/filepath"
	"sort"
	"strconv"
	"strings"
)

const modPath = "github.com/whawty/auth"

var redirect = map[string]map[string]string{
	// package dir -> import path -> simulator package
	"store":           {"os": "simfs", "sync": "simsync", "path/filepath": "simfilepath", "io/ioutil": "simioutil", "math/rand": "simrand", "math/rand/v2": "simrandv2"},
	"sasl":            {"net": "simnet", "sync": "simsync", "math/rand": "simrand", "math/rand/v2": "simrandv2"},
	"cmd/whawty-auth": {"os": "simfs", "net": "simnet", "os/exec": "simexec", "os/signal": "simsignal", "sync": "simsync", "path/filepath": "simfilepath", "io/ioutil": "simioutil", "math/rand": "simrand", "math/rand/v2": "simrandv2"},
}

type edit struct {
	start, end int // byte offsets in the original file
	text       string
}

type genResult struct {
	BuildDir    string
	Overlay     string
	Modfile     string
	Hash        string
	Selects     []string // report of rewritten / skipped selects
	UsedSymbols map[string][]string
}

type goListPkg struct {
	Dir         string
	ImportPath  string
	GoFiles     []string
	TestGoFiles []string
	XTestGoFiles []string
}

func goList(repo string, env []string, pkgs ...string) ([]goListPkg, error) {
	args := append([]string{"list", "-json"}, pkgs...)
	cmd := exec.Command(goBin(), args...)
	cmd.Dir = repo
	cmd.Env = env
	var stderr bytes.Buffer
	cmd.Stderr = &stderr
	out, err := cmd.Output()
	if err != nil {
		return nil, fmt.Errorf("go list: %v: %s", err, stderr.String())
	}
	dec := json.NewDecoder(bytes.NewReader(out))
	var res []goListPkg
	for dec.More() {
		var p goListPkg
		if err := dec.Decode(&p); err != nil {
			return nil, err
		}
		res = append(res, p)
	}
	return res, nil
}

// simgen builds the overlay. verifDir is /verif, repo the tree to verify.
func simgen(verifDir, repo string, env []string) (*genResult, error) {
	pkgs, err := goList(repo, env, "./store", "./sasl", "./cmd/whawty-auth")
	if err != nil {
		return nil, err
	}
	res := &genResult{UsedSymbols: map[string][]string{}}
	h := sha256.New()
	type outFile struct {
		orig string
		data []byte
	}
	var outs []outFile
	overlay := map[string]string{}
	for _, p := range pkgs {
		rel, err := filepath.Rel(repo, p.Dir)
		if err != nil {
			return nil, err
		}
		rel = filepath.ToSlash(rel)
		red := redirect[rel]
		for _, f := range p.GoFiles {
			path := filepath.Join(p.Dir, f)
			src, err := os.ReadFile(path)
			if err != nil {
				return nil, err
			}
			if rel != "store" || libYieldFiles[f] {
				// pass 1: every channel operation and every goroutine started from a function
				// literal becomes a scheduling point (line numbers are preserved); in package store
				// only the hasher files are treated, with statement-level yields that go to the
				// library-level interleaver (simrt.LibYield, a no-op unless a harness installs it)
				ysrc, yrep, yerr := insertYields(path, src)
				if yerr != nil {
					return nil, fmt.Errorf("%s: %v", path, yerr)
				}
				src = ysrc
				res.Selects = append(res.Selects, yrep...)
			}
			out, rep, used, err := transformFile(path, src, red, rel != "sasl" && rel != "store")
			if err != nil {
				return nil, fmt.Errorf("%s: %v", path, err)
			}
			res.Selects = append(res.Selects, rep...)
			for k, v := range used {
				res.UsedSymbols[k] = append(res.UsedSymbols[k], v...)
			}
			outs = append(outs, outFile{path, out})
			h.Write([]byte(path))
			h.Write(out)
		}
		for _, f := range append(append([]string{}, p.TestGoFiles...), p.XTestGoFiles...) {
			overlay[filepath.Join(p.Dir, f)] = ""
		}
	}
	// simulator packages and harness files
	type add struct{ src, dst string }
	var adds []add
	simDir := filepath.Join(verifDir, "sim")
	ents, _ := os.ReadDir(simDir)
	for _, e := range ents {
		if !e.IsDir() {
			continue
		}
		files, _ := filepath.Glob(filepath.Join(simDir, e.Name(), "*.go"))
		for _, f := range files {
			adds = append(adds, add{f, filepath.Join(repo, "zzverif", e.Name(), filepath.Base(f))})
		}
	}
	for hdir, pdir := range map[string]string{"store": "store", "sasl": "sasl", "agent": "cmd/whawty-auth"} {
		files, _ := filepath.Glob(filepath.Join(verifDir, "harness", hdir, "*.go"))
		for _, f := range files {
			adds = append(adds, add{f, filepath.Join(repo, pdir, "zz_"+filepath.Base(f))})
		}
		// shared harness helpers are copied into each harness package
		shared, _ := filepath.Glob(filepath.Join(verifDir, "harness", "shared", "*.go"))
		for _, f := range shared {
			adds = append(adds, add{f, filepath.Join(repo, pdir, "zz_shared_"+filepath.Base(f))})
		}
	}
	sort.Slice(adds, func(i, j int) bool { return adds[i].dst < adds[j].dst })
	for _, a := range adds {
		b, err := os.ReadFile(a.src)
		if err != nil {
			return nil, err
		}
		h.Write([]byte(a.dst))
		h.Write(b)
	}
	gomod, err := os.ReadFile(filepath.Join(repo, "go.mod"))
	if err != nil {
		return nil, err
	}
	gosum, _ := os.ReadFile(filepath.Join(repo, "go.sum"))
	h.Write(gomod)
	h.Write(gosum)
	res.Hash = hex.EncodeToString(h.Sum(nil))[:16]
	res.BuildDir = filepath.Join(verifDir, ".build", res.Hash)
	if err := os.MkdirAll(filepath.Join(res.BuildDir, "src"), 0o755); err != nil {
		return nil, err
	}
	for i, o := range outs {
		dst := filepath.Join(res.BuildDir, "src", fmt.Sprintf("%03d_%s", i, filepath.Base(o.orig)))
		if err := os.WriteFile(dst, o.data, 0o644); err != nil {
			return nil, err
		}
		overlay[o.orig] = dst
	}
	for _, a := range adds {
		// harness files with package clause "SHAREDPKG" placeholders: shared files carry
		// `package shared`; rewrite the clause to the target package.
		if strings.Contains(a.dst, "zz_shared_") {
			b, _ := os.ReadFile(a.src)
			pkg := "store"
			switch {
			case strings.Contains(a.dst, "/sasl/"):
				pkg = "sasl"
			case strings.Contains(a.dst, "/cmd/whawty-auth/"):
				pkg = "main"
			}
			b = bytes.Replace(b, []byte("\npackage shared\n"), []byte("\npackage "+pkg+"\n"), 1)
			dst := filepath.Join(res.BuildDir, "src", "shared_"+pkg+"_"+filepath.Base(a.src))
			if err := os.WriteFile(dst, b, 0o644); err != nil {
				return nil, err
			}
			overlay[a.dst] = dst
			continue
		}
		overlay[a.dst] = a.src
	}
	// modfile: repo's go.mod + harness-only requirements
	mod := string(gomod)
	if !strings.Contains(mod, "github.com/anishathalye/porcupine") {
		mod += "\nrequire github.com/anishathalye/porcupine v1.3.0\n"
	}
	res.Modfile = filepath.Join(res.BuildDir, "go.mod")
	if err := os.WriteFile(res.Modfile, []byte(mod), 0o644); err != nil {
		return nil, err
	}
	if _, err := os.Stat(filepath.Join(res.BuildDir, "go.sum")); err != nil {
		if err := os.WriteFile(filepath.Join(res.BuildDir, "go.sum"), gosum, 0o644); err != nil {
			return nil, err
		}
	}
	ov, _ := json.MarshalIndent(map[string]any{"Replace": overlay}, "", " ")
	res.Overlay = filepath.Join(res.BuildDir, "overlay.json")
	if err := os.WriteFile(res.Overlay, ov, 0o644); err != nil {
		return nil, err
	}
	rep, _ := json.MarshalIndent(res, "", " ")
	os.WriteFile(filepath.Join(res.BuildDir, "simgen-report.json"), rep, 0o644) //nolint
	return res, nil
}

func transformFile(path string, src []byte, red map[string]string, doSelects bool) ([]byte, []string, map[string][]string, error) {
	fset := token.NewFileSet()
	f, err := parser.ParseFile(fset, path, src, parser.ParseComments)
	if err != nil {
		return nil, nil, nil, err
	}
	tf := fset.File(f.Pos())
	off := func(p token.Pos) int { return tf.Offset(p) }
	var edits []edit
	var report []string
	used := map[string][]string{}
	localNames := map[string]string{} // local identifier -> sim package
	needSimrt := false

	for _, imp := range f.Imports {
		p, _ := strconv.Unquote(imp.Path.Value)
		sim, ok := red[p]
		if !ok {
			continue
		}
		local := filepath.Base(p)
		if imp.Name != nil {
			local = imp.Name.Name
		}
		if local == "_" || local == "." {
			return nil, nil, nil, fmt.Errorf("cannot redirect blank/dot import of %s", p)
		}
		localNames[local] = sim
		start := off(imp.Pos())
		end := off(imp.End())
		edits = append(edits, edit{start, end, fmt.Sprintf("%s %q", local, modPath+"/zzverif/"+sim)})
	}
	// collect used symbols (for the "simulator lacks symbol" refusal)
	ast.Inspect(f, func(n ast.Node) bool {
		if se, ok := n.(*ast.SelectorExpr); ok {
			if id, ok := se.X.(*ast.Ident); ok && id.Obj == nil {
				if sim, ok := localNames[id.Name]; ok {
					used[sim] = append(used[sim], se.Sel.Name)
				}
			}
		}
		return true
	})

	if doSelects {
		base := filepath.Base(path)
		idx := 0
		ast.Inspect(f, func(n ast.Node) bool {
			ls, isLabeled := n.(*ast.LabeledStmt)
			if isLabeled {
				if _, ok := ls.Stmt.(*ast.SelectStmt); ok {
					report = append(report, fmt.Sprintf("%s:%d labelled select left as is", base, fset.Position(ls.Pos()).Line))
					return false
				}
			}
			ss, ok := n.(*ast.SelectStmt)
			if !ok {
				return true
			}
			line := fset.Position(ss.Pos()).Line
			text, why := rewriteSelect(fset, tf, src, ss, fmt.Sprintf("%s:%d", base, line), path, idx)
			if why != "" {
				report = append(report, fmt.Sprintf("%s:%d select left as is: %s", base, line, why))
				return true
			}
			idx++
			needSimrt = true
			edits = append(edits, edit{off(ss.Pos()), off(ss.End()), text})
			report = append(report, fmt.Sprintf("%s:%d select rewritten (%d comm clauses)", base, line, len(ss.Body.List)))
			return false // nested selects inside a rewritten one are not handled separately
		})
	}
	if bytes.Contains(src, []byte("__simrt.")) {
		needSimrt = true
	}
	if needSimrt {
		// add the simrt import right after the package clause's line
		pkgEnd := off(f.Name.End())
		edits = append(edits, edit{pkgEnd, pkgEnd, fmt.Sprintf("; import __simrt %q", modPath+"/zzverif/simrt")})
	}
	sort.Slice(edits, func(i, j int) bool { return edits[i].start < edits[j].start })
	var out bytes.Buffer
	fmt.Fprintf(&out, "//line %s:1\n", path)
	pos := 0
	for _, e := range edits {
		if e.start < pos {
			return nil, nil, nil, fmt.Errorf("overlapping edits")
		}
		out.Write(src[pos:e.start])
		out.WriteString(e.text)
		pos = e.end
	}
	out.Write(src[pos:])
	return out.Bytes(), report, used, nil
}

func sideEffectFree(e ast.Expr) bool {
	switch x := e.(type) {
	case *ast.Ident, *ast.BasicLit:
		return true
	case *ast.SelectorExpr:
		return sideEffectFree(x.X)
	case *ast.ParenExpr:
		return sideEffectFree(x.X)
	case *ast.StarExpr:
		return sideEffectFree(x.X)
	case *ast.CompositeLit:
		for _, el := range x.Elts {
			if kv, ok := el.(*ast.KeyValueExpr); ok {
				if !sideEffectFree(kv.Value) {
					return false
				}
			} else if !sideEffectFree(el) {
				return false
			}
		}
		return true
	case *ast.UnaryExpr:
		return x.Op != token.ARROW && sideEffectFree(x.X)
	}
	return false
}

// rewriteSelect returns the replacement text for ss, or a reason why it is left alone.
//
//	{
//	    __f := -1
//	    __c0 := <chan expr 0>; __h0 := __simrt.NewHolder(__c0) ...
//	    for {
//	        for _, __i := range __simrt.Order(site, n) {   // park point; nil when inactive
//	            switch __i { case 0: if __h0.Try(__c0) { __f = 0 } ... }
//	            if __f >= 0 { break }
//	        }
//	        if __f >= 0 || !__simrt.Retry(site, hasDefault) { break }   // a scheduler-owned goroutine re-parks (polls) instead of blocking
//	    }
//	    if __f < 0 { select { case __h0.V, __h0.OK = <-__c0: __f = 0 ... } }   // the original blocking select
//	    switch __f { case 0: <decls>; BODY0 ... }           // bodies verbatim; break/continue/return keep meaning
//	}
func rewriteSelect(fset *token.FileSet, tf *token.File, src []byte, ss *ast.SelectStmt, site, path string, idx int) (string, string) {
	type clause struct {
		isSend   bool
		ch, val  string // source text
		lhs      []string
		define   bool
		bodyText string
		bodyLine int
		hasBody  bool
	}
	var cl []clause
	hasDefault := false
	var defBody string
	var defLine int
	text := func(n ast.Node) string { return string(src[tf.Offset(n.Pos()):tf.Offset(n.End())]) }
	ncomm := 0
	for _, st := range ss.Body.List {
		cc := st.(*ast.CommClause)
		var body string
		var bline int
		if len(cc.Body) > 0 {
			s := tf.Offset(cc.Body[0].Pos())
			e := tf.Offset(cc.Body[len(cc.Body)-1].End())
			body = string(src[s:e])
			bline = fset.Position(cc.Body[0].Pos()).Line
		}
		if cc.Comm == nil {
			hasDefault = true
			defBody, defLine = body, bline
			continue
		}
		ncomm++
		c := clause{bodyText: body, bodyLine: bline, hasBody: len(cc.Body) > 0}
		switch s := cc.Comm.(type) {
		case *ast.SendStmt:
			if !sideEffectFree(s.Chan) || !sideEffectFree(s.Value) {
				return "", "send with side-effecting operands"
			}
			c.isSend, c.ch, c.val = true, text(s.Chan), text(s.Value)
		case *ast.ExprStmt:
			ue, ok := s.X.(*ast.UnaryExpr)
			if !ok || ue.Op != token.ARROW || !sideEffectFree(ue.X) {
				return "", "unsupported receive expression"
			}
			c.ch = text(ue.X)
		case *ast.AssignStmt:
			if len(s.Rhs) != 1 {
				return "", "unsupported assignment"
			}
			ue, ok := s.Rhs[0].(*ast.UnaryExpr)
			if !ok || ue.Op != token.ARROW || !sideEffectFree(ue.X) {
				return "", "unsupported receive expression"
			}
			c.ch = text(ue.X)
			c.define = s.Tok == token.DEFINE
			for _, l := range s.Lhs {
				if !sideEffectFree(l) {
					return "", "side-effecting receive target"
				}
				c.lhs = append(c.lhs, text(l))
			}
		default:
			return "", "unsupported comm clause"
		}
		cl = append(cl, c)
	}
	if ncomm < 2 {
		return "", "fewer than two communication clauses"
	}
	var b strings.Builder
	p := fmt.Sprintf("__s%d", idx)
	fmt.Fprintf(&b, "{ %sf := -1; ", p)
	for i, c := range cl {
		fmt.Fprintf(&b, "%sc%d := %s; ", p, i, c.ch)
		if !c.isSend {
			fmt.Fprintf(&b, "%sh%d := __simrt.NewHolder(%sc%d); ", p, i, p, i)
		}
	}
	fmt.Fprintf(&b, "for { for _, %si := range __simrt.Order(%q, %d) { switch %si { ", p, site, len(cl), p)
	for i, c := range cl {
		if c.isSend {
			fmt.Fprintf(&b, "case %d: if __simrt.TrySend(%sc%d, %s) { %sf = %d }; ", i, p, i, c.val, p, i)
		} else {
			fmt.Fprintf(&b, "case %d: if %sh%d.Try(%sc%d) { %sf = %d }; ", i, p, i, p, i, p, i)
		}
	}
	fmt.Fprintf(&b, "}; if %sf >= 0 { break } }; if %sf >= 0 || !__simrt.Retry(%q, %t) { break } }; ", p, p, site, hasDefault)
	fmt.Fprintf(&b, "if %sf < 0 { select { ", p)
	for i, c := range cl {
		if c.isSend {
			fmt.Fprintf(&b, "case %sc%d <- %s: %sf = %d; ", p, i, c.val, p, i)
		} else {
			fmt.Fprintf(&b, "case %sh%d.V, %sh%d.OK = <-%sc%d: %sf = %d; ", p, i, p, i, p, i, p, i)
		}
	}
	if hasDefault {
		fmt.Fprintf(&b, "default: %sf = %d; ", p, len(cl))
	}
	fmt.Fprintf(&b, "} }; __simrt.Picked(%q, %sf); switch %sf {\n", site, p, p)
	for i, c := range cl {
		fmt.Fprintf(&b, "case %d:\n", i)
		if len(c.lhs) > 0 {
			op := "="
			if c.define {
				op = ":="
			}
			switch len(c.lhs) {
			case 1:
				fmt.Fprintf(&b, "%s %s %sh%d.V\n", c.lhs[0], op, p, i)
			case 2:
				fmt.Fprintf(&b, "%s, %s %s %sh%d.V, %sh%d.OK\n", c.lhs[0], c.lhs[1], op, p, i, p, i)
			}
			if c.define {
				for _, l := range c.lhs {
					if l != "_" {
						fmt.Fprintf(&b, "_ = %s\n", l)
					}
				}
			}
		}
		if c.hasBody {
			fmt.Fprintf(&b, "//line %s:%d\n%s\n", path, c.bodyLine, c.bodyText)
		}
	}
	if hasDefault {
		fmt.Fprintf(&b, "case %d:\n", len(cl))
		if defBody != "" {
			fmt.Fprintf(&b, "//line %s:%d\n%s\n", path, defLine, defBody)
		}
	}
	// a default that cannot be reached keeps the statement "terminating" in the sense of the
	// language spec whenever every clause of the original select ended in return / panic
	fmt.Fprintf(&b, "default:\npanic(\"simrt: impossible select outcome\")\n")
	endLine := fset.Position(ss.End()).Line
	fmt.Fprintf(&b, "} }\n//line %s:%d\n", path, endLine)
	return b.String(), ""
}

// stmtYieldFiles: files of cmd/whawty-auth whose functions run concurrently on shared state
// without going through the dispatcher (the session factory and the HTTP handlers).
var stmtYieldFiles = map[string]bool{"web_session.go": true, "web_api.go": true}

// libYieldFiles: files of package store whose objects (the hashers of a Dir) are shared by
// overlapping library calls of one process; every statement boundary in them is a scheduling
// point for the two-caller clauses of the library-level harness.
var libYieldFiles = map[string]bool{"userhash_argon2id.go": true, "userhash_scryptauth.go": true}

// containsChanOp reports whether the expression tree (not descending into function
// literals) contains a channel receive.
func containsRecv(n ast.Node) bool {
	found := false
	ast.Inspect(n, func(x ast.Node) bool {
		if found {
			return false
		}
		switch e := x.(type) {
		case *ast.FuncLit:
			return false
		case *ast.UnaryExpr:
			if e.Op == token.ARROW {
				found = true
			}
		}
		return true
	})
	return found
}

// insertYields is pass 1 of the transformation. It inserts, on the same source line,
//   - `__simrt.Yield("file:line"); ` before every statement that performs a channel send or
//     receive outside a select (a goroutine known to the scheduler parks there until released);
//   - for `go func(params){ body }(args)`: an extra parameter carrying an id drawn in the
//     parent (`__simrt.NextGoID`) and `__simrt.YieldStart(site, id)` as first statement of the
//     body, so that the start of the new goroutine is a scheduling decision as well.
// `go f(x)` with a plain call is left alone (its arguments are evaluated eagerly anyway).
func insertYields(path string, src []byte) ([]byte, []string, error) {
	fset := token.NewFileSet()
	f, err := parser.ParseFile(fset, path, src, parser.ParseComments)
	if err != nil {
		return nil, nil, err
	}
	tf := fset.File(f.Pos())
	off := func(p token.Pos) int { return tf.Offset(p) }
	base := filepath.Base(path)
	var edits []edit
	nyield, ngo := 0, 0
	commStmts := map[ast.Stmt]bool{}
	ast.Inspect(f, func(n ast.Node) bool {
		if cc, ok := n.(*ast.CommClause); ok && cc.Comm != nil {
			commStmts[cc.Comm] = true
		}
		return true
	})
	addYield := func(st ast.Stmt) {
		site := fmt.Sprintf("%s:%d", base, fset.Position(st.Pos()).Line)
		fn := "Yield"
		if libYieldFiles[base] {
			fn = "LibYield"
		}
		edits = append(edits, edit{off(st.Pos()), off(st.Pos()), fmt.Sprintf("__simrt.%s(%q); ", fn, site)})
		nyield++
	}
	ast.Inspect(f, func(n ast.Node) bool {
		switch st := n.(type) {
		case *ast.GoStmt:
			fl, ok := st.Call.Fun.(*ast.FuncLit)
			if !ok {
				// go f(a, b): function value and arguments are evaluated here and now (as the
				// language says), the new goroutine starts with a scheduling point:
				//   { __gf := f; __ga0 := a; ...; __gid := NextGoID(site); go func() { YieldStart(site, __gid); __gf(__ga0, ...) }() }
				site := fmt.Sprintf("%s:%d", base, fset.Position(st.Pos()).Line)
				text := func(n ast.Node) string { return string(src[off(n.Pos()):off(n.End())]) }
				if id, isIdent := st.Call.Fun.(*ast.Ident); isIdent && (id.Name == "close" || id.Name == "panic" || id.Name == "print" || id.Name == "println" || id.Name == "delete") {
					return true
				}
				var b strings.Builder
				fmt.Fprintf(&b, "{ __gf := %s; ", text(st.Call.Fun))
				var args []string
				for i, a := range st.Call.Args {
					inline := false
					switch x := a.(type) {
					case *ast.BasicLit:
						inline = true
					case *ast.Ident:
						inline = x.Name == "nil" || x.Name == "true" || x.Name == "false"
					}
					if inline {
						args = append(args, text(a))
						continue
					}
					fmt.Fprintf(&b, "__ga%d := %s; ", i, text(a))
					args = append(args, fmt.Sprintf("__ga%d", i))
				}
				call := strings.Join(args, ", ")
				if st.Call.Ellipsis.IsValid() {
					call += "..."
				}
				fmt.Fprintf(&b, "__gid := __simrt.NextGoID(%q); go func() { __simrt.YieldStart(%q, __gid); __gf(%s) }() }", site, site, call)
				b.WriteString(strings.Repeat("\n", bytes.Count(src[off(st.Pos()):off(st.End())], []byte("\n")))) // keep line numbers
				edits = append(edits, edit{off(st.Pos()), off(st.End()), b.String()})
				ngo++
				return false
			}
			params := fl.Type.Params
			if n := len(params.List); n > 0 {
				if _, variadic := params.List[n-1].Type.(*ast.Ellipsis); variadic {
					return true
				}
			}
			site := fmt.Sprintf("%s:%d", base, fset.Position(st.Pos()).Line)
			sep := ""
			if len(params.List) > 0 {
				sep = ", "
			}
			edits = append(edits, edit{off(params.Closing), off(params.Closing), sep + "__gid int"})
			edits = append(edits, edit{off(fl.Body.Lbrace) + 1, off(fl.Body.Lbrace) + 1, fmt.Sprintf(" __simrt.YieldStart(%q, __gid); ", site)})
			sep = ""
			if len(st.Call.Args) > 0 {
				sep = ", "
			}
			edits = append(edits, edit{off(st.Call.Rparen), off(st.Call.Rparen), sep + fmt.Sprintf("__simrt.NextGoID(%q)", site)})
			ngo++
		}
		return true
	})
	// statement-level yields: in the files that share state between concurrently running HTTP
	// handlers every statement boundary is a scheduling point (for goroutines the scheduler knows)
	everyStmt := stmtYieldFiles[base] || libYieldFiles[base]
	// statements with channel operations
	ast.Inspect(f, func(n ast.Node) bool {
		var list []ast.Stmt
		switch b := n.(type) {
		case *ast.BlockStmt:
			list = b.List
		case *ast.CaseClause:
			list = b.Body
		case *ast.CommClause:
			list = b.Body
		default:
			return true
		}
		for _, st := range list {
			if commStmts[st] {
				continue
			}
			if everyStmt {
				switch st.(type) {
				case *ast.LabeledStmt, *ast.EmptyStmt, *ast.DeclStmt, *ast.CaseClause, *ast.CommClause:
				default:
					addYield(st)
				}
				continue
			}
			switch s := st.(type) {
			case *ast.SendStmt:
				addYield(s)
			case *ast.ExprStmt:
				if containsRecv(s.X) {
					addYield(s)
				}
			case *ast.AssignStmt:
				for _, r := range s.Rhs {
					if containsRecv(r) {
						addYield(s)
						break
					}
				}
			case *ast.ReturnStmt:
				for _, r := range s.Results {
					if containsRecv(r) {
						addYield(s)
						break
					}
				}
			}
		}
		return true
	})
	if len(edits) == 0 {
		return src, nil, nil
	}
	sort.SliceStable(edits, func(i, j int) bool { return edits[i].start < edits[j].start })
	var out bytes.Buffer
	pos := 0
	for _, e := range edits {
		if e.start < pos {
			continue // inside a replaced go statement
		}
		out.Write(src[pos:e.start])
		out.WriteString(e.text)
		pos = e.end
	}
	out.Write(src[pos:])
	return out.Bytes(), []string{fmt.Sprintf("%s: %d channel-operation yields, %d goroutine-start yields inserted", base, nyield, ngo)}, nil
}
