package main

import (
	"strings"
	"encoding/json"
	"fmt"
	"os"
	"path/filepath"
	"sort"
)

// notApplicable lists the properties not claimed (yet), each with a reason.
var notApplicable = map[string]string{}

var allProps = []string{"C01", "C02", "C03", "C04", "C05", "C06", "C07", "C08", "C09", "C10", "C11", "C12", "C13", "C14", "C15", "C16", "C17", "C18", "C19", "C20"}

func writeManifest(verifDir string) {
	type check struct {
		PropertyID string         `json:"property_id"`
		Quick      string         `json:"quick_cmd"`
		Thorough   string         `json:"thorough_cmd"`
		Evidence   string         `json:"evidence_file"`
		Replay     string         `json:"replay_cmd_template"`
		Engine     string         `json:"engine"`
		Level      map[string]any `json:"level_claimed"`
		Note       string         `json:"level_note"`
		Technique  string         `json:"technique"`
	}
	var checks []check
	na := []map[string]string{}
	ids := append([]string(nil), allProps...)
	sort.Strings(ids)
	for _, id := range ids {
		m, ok := propMeta[id]
		if !ok || id[0] == 'X' {
			reason := notApplicable[id]
			if reason == "" {
				reason = "check not built yet (planned in DESIGN.md section 3); nothing is claimed for this property until its check exists and is quiet on the unchanged tree"
			}
			na = append(na, map[string]string{"property_id": id, "reason": reason})
			continue
		}
		tech := m.Technique
		if tech == "" {
			tech = "deterministic simulation with fault injection (seeded search, replayable tape)"
		}
		lt := m.LevelText
		if lt == "" {
			switch m.Level {
			case "fault_enumeration":
				lt = "Fault enumeration inside a deterministic simulator: within each generated scenario EVERY crash point / single fault of the operation is enumerated (complete within the scenario; post-crash images complete up to the stated limit, sampled beyond), the scenarios themselves are sampled by seed. Right level because the property quantifies over crash instants and fault positions of individual operations, which the simulated disk can enumerate exactly; no claim beyond the generated scenarios. What one evaluation is: " + m.Rule
			default:
				lt = "Seeded exploration in a deterministic simulator: every run is a pure function of one tape (inputs, schedule, clock steps, faults); violations are minimised, written as replay files and confirmed by replay in a fresh process. A clean batch is evidence, not proof. Right level because the property quantifies over unbounded histories / schedules / inputs that can be sampled but not enumerated. What one evaluation is: " + m.Rule
			}
		}
		note := m.Note
		if note == "" {
			note = "Trusted base / assumptions: " + strings.Join(m.Assumptions, "; ") + ". Real code in the loop: " + strings.Join(m.Real, "; ") + ". Stubs: " + strings.Join(m.Stub, "; ") + "."
		}
		dref := m.DesignRef
		if dref == "" {
			dref = "DESIGN.md section 3, " + id
		}
		checks = append(checks, check{PropertyID: id, Quick: "./check " + id + " --tier quick", Thorough: "./check " + id + " --tier thorough",
			Evidence: "/verif/evidence/" + id + ".json", Replay: "./check " + id + " --replay {path}", Engine: "dst-" + m.Pkg,
			Level: map[string]any{"category": m.Level, "text": lt, "design_ref": dref}, Note: note, Technique: tech})
	}
	man := map[string]any{
		"version":   1,
		"setup_cmd": "./check setup",
		"hooks": map[string]any{
			"guard":            "verif",
			"enable":           "no source hooks in /repo: `go test -c -tags verif -overlay <generated> -modfile <generated>` adds the simulator packages and harness files and redirects the imports of os, net, os/exec, os/signal in transformed copies (tools/runner/simgen.go); the tag verif guards only overlay-injected files",
			"baseline_off_cmd": "cd /repo && GOFLAGS=-mod=mod GOPROXY=off go test -vet=off -count=1 ./...",
			"source_commits":   []string{},
			"add_only":         true,
		},
		"engines": []map[string]any{
			{"name": "dst-store", "path": "/verif/harness/store", "kind_free_text": "run class L: real package store on simfs (simulated disk with durability model, fault and crash injection) inside a synctest bubble; seeded tape, ddmin, replay", "serves_properties": servesOf("store")},
			{"name": "dst-sasl", "path": "/verif/harness/sasl", "kind_free_text": "run class S: real package sasl on simnet (scheduler-controlled byte delivery) and scripted readers", "serves_properties": servesOf("sasl")},
			{"name": "dst-agent", "path": "/verif/harness/agent", "kind_free_text": "run class A: real cmd/whawty-auth + store + sasl in a synctest bubble under the seeded baton scheduler (rewritten selects), simfs/simnet/simexec/simsignal", "serves_properties": servesOf("agent")},
			{"name": "dst-pam", "path": "/verif/pamsim", "kind_free_text": "run class P: pam_whawty.c compiled unmodified with clang ASan/UBSan against a discrete-event syscall simulator", "serves_properties": servesOf("pam")},
		},
		"checks":         checks,
		"not_applicable": na,
		"notes":          "All checks: seeded search over schedules, inputs and fault sequences in a deterministic simulator; VERIF_SEED selects the batch; every violation is minimised and confirmed by replay in a fresh process before it is printed. Exit 2 = the check could not do its job (never reported as a violation). See DESIGN.md.",
	}
	b, _ := json.MarshalIndent(man, "", " ")
	if err := os.WriteFile(filepath.Join(verifDir, "MANIFEST.json"), append(b, '\n'), 0o644); err != nil {
		fmt.Fprintln(os.Stderr, err)
		os.Exit(2)
	}
	fmt.Printf("MANIFEST.json: %d checks, %d not claimed\n", len(checks), len(na))
}

func servesOf(pkg string) []string {
	var out []string
	for id, m := range propMeta {
		if m.Pkg == pkg && id[0] != 'X' {
			out = append(out, id)
		}
	}
	sort.Strings(out)
	if out == nil {
		out = []string{}
	}
	return out
}
