package main

// Supervisor of DESIGN.md 6: simgen -> build -> N worker processes -> aggregation ->
// replay confirmation -> evidence -> exit status (0 held / 1 violation / 2 cannot decide).

import (
	"bufio"
	"bytes"
	"crypto/sha256"
	"encoding/hex"
	"encoding/json"
	"fmt"
	"os"
	"os/exec"
	"path/filepath"
	"runtime"
	"sort"
	"strconv"
	"strings"
	"sync"
	"syscall"
	"time"
)

func goBin() string {
	if p := os.Getenv("VERIF_GO"); p != "" {
		return p
	}
	if _, err := os.Stat("/opt/veriftools/go1.26.8/bin/go"); err == nil {
		return "/opt/veriftools/go1.26.8/bin/go"
	}
	return "go1.26.8"
}

func baseEnv() []string {
	env := os.Environ()
	set := func(k, v string) {
		for i, e := range env {
			if strings.HasPrefix(e, k+"=") {
				env[i] = k + "=" + v
				return
			}
		}
		env = append(env, k+"="+v)
	}
	set("GOFLAGS", "-mod=mod")
	set("GOPROXY", "off")
	set("GOSUMDB", "off")
	set("GOTOOLCHAIN", "local")
	set("GONOSUMDB", "*")
	set("GONOSUMCHECK", "1")
	set("GOFIPS140", "off")
	// the C simulator bails out of a looping module with longjmp; leaks are accounted for by
	// the simulator itself (memory/leak, password/leaked-buffer), not by LeakSanitizer
	set("ASAN_OPTIONS", "detect_leaks=0:abort_on_error=0")
	return env
}

type resultLine struct {
	Type      string            `json:"type"`
	Prop      string            `json:"prop"`
	Runs      int               `json:"runs,omitempty"`
	Steps     int               `json:"steps,omitempty"`
	SimTimeNs int64             `json:"sim_time_ns,omitempty"`
	WallMs    int64             `json:"wall_ms,omitempty"`
	Stats     map[string]int    `json:"stats,omitempty"`
	Distinct  []uint64          `json:"distinct,omitempty"`
	Samples   []any             `json:"samples,omitempty"`
	Sig       string            `json:"sig,omitempty"`
	Msg       string            `json:"msg,omitempty"`
	Seed      uint64            `json:"seed,omitempty"`
	Idx       int               `json:"idx,omitempty"`
	Tape      []int             `json:"tape,omitempty"`
	Decisions json.RawMessage   `json:"decisions,omitempty"`
	Log       []string          `json:"log,omitempty"`
	LogHash   string            `json:"log_hash,omitempty"`
	OrigLen   int               `json:"orig_tape_len,omitempty"`
	MinRuns   int               `json:"minimise_runs,omitempty"`
	Known     map[string]string `json:"known,omitempty"`
	Foreign   json.RawMessage   `json:"foreign,omitempty"`
	Tier      string            `json:"tier,omitempty"`
}

type replayFile struct {
	Prop      string          `json:"property"`
	Sig       string          `json:"signature"`
	Msg       string          `json:"violation"`
	Seed      uint64          `json:"run_seed"`
	Tier      string          `json:"tier"`
	Tape      []int           `json:"tape"`
	Decisions json.RawMessage `json:"decisions"`
	Log       []string        `json:"event_log"`
	LogHash   string          `json:"event_log_sha"`
	OrigLen   int             `json:"original_tape_len"`
	Pkg       string          `json:"harness"`
	SeedOnly  bool            `json:"seed_only,omitempty"`
}

type finding struct {
	Property  string `json:"property"`
	Signature string `json:"signature"`
	Status    string `json:"status"` // known | fixed
	What      string `json:"what"`
	Commit    string `json:"commit,omitempty"`
}

type findingsFile struct {
	Findings []finding `json:"findings"`
}

func loadFindings(verifDir string) []finding {
	b, err := os.ReadFile(filepath.Join(verifDir, "known_findings.json"))
	if err != nil {
		return nil
	}
	var ff findingsFile
	if err := json.Unmarshal(b, &ff); err != nil {
		fmt.Fprintf(os.Stderr, "known_findings.json: %v\n", err)
		os.Exit(2)
	}
	return ff.Findings
}

func die2(format string, a ...any) {
	fmt.Fprintf(os.Stderr, "CANNOT-DECIDE: "+format+"\n", a...)
	os.Exit(2)
}

func main() {
	if len(os.Args) < 2 {
		fmt.Fprintln(os.Stderr, "usage: runner check <ID> [--tier quick|thorough] [--replay file] | setup | gen")
		os.Exit(2)
	}
	verifDir := os.Getenv("VERIF_DIR")
	if verifDir == "" {
		verifDir = "/verif"
	}
	repo := os.Getenv("VERIF_REPO")
	if repo == "" {
		repo = "/repo"
	}
	repo, _ = filepath.Abs(repo)
	switch os.Args[1] {
	case "gen":
		g, err := simgen(verifDir, repo, baseEnv())
		if err != nil {
			die2("simgen: %v", err)
		}
		fmt.Println(g.BuildDir)
		for _, s := range g.Selects {
			fmt.Println(" ", s)
		}
	case "setup":
		os.Exit(setup(verifDir, repo))
	case "manifest":
		writeManifest(verifDir)
	case "determinism":
		os.Exit(determinism(verifDir, repo, os.Args[2:]))
	case "check":
		if len(os.Args) < 3 {
			die2("check needs a property id")
		}
		id := os.Args[2]
		tier := os.Getenv("VERIF_TIER")
		replay := ""
		for i := 3; i < len(os.Args); i++ {
			switch os.Args[i] {
			case "--tier":
				i++
				tier = os.Args[i]
			case "--replay":
				i++
				replay = os.Args[i]
			}
		}
		if tier == "" {
			tier = "quick"
		}
		os.Exit(check(verifDir, repo, id, tier, replay))
	default:
		die2("unknown command %s", os.Args[1])
	}
}

func setup(verifDir, repo string) int {
	start := time.Now()
	g, err := simgen(verifDir, repo, baseEnv())
	if err != nil {
		die2("simgen: %v", err)
	}
	for _, pkg := range []string{"store", "sasl", "agent"} {
		if _, err := os.Stat(filepath.Join(verifDir, "harness", pkg)); err != nil {
			continue
		}
		if _, err := buildHarness(verifDir, repo, g, pkg); err != nil {
			die2("build %s: %v", pkg, err)
		}
	}
	if _, err := os.Stat(filepath.Join(verifDir, "pamsim", "driver.c")); err == nil {
		if _, err := buildPam(verifDir, repo); err != nil {
			die2("build pamsim: %v", err)
		}
	}
	if rc := check(verifDir, repo, "X-SIMFS", "quick", ""); rc != 0 {
		die2("simfs differential self-test failed (exit %d)", rc)
	}
	fmt.Printf("setup ok in %.1fs (build dir %s)\n", time.Since(start).Seconds(), g.BuildDir)
	return 0
}

var harnessDirOf = map[string]string{"store": "store", "sasl": "sasl", "agent": "cmd/whawty-auth"}

var buildMu sync.Mutex

// pamsimBin is the compiled C simulator handed to the sasl harness (PAM clauses of C05 / C13).
var pamsimBin string

func buildHarness(verifDir, repo string, g *genResult, pkg string) (string, error) {
	buildMu.Lock()
	defer buildMu.Unlock()
	bin := filepath.Join(g.BuildDir, pkg+".test")
	if _, err := os.Stat(bin); err == nil {
		now := time.Now()
		os.Chtimes(g.BuildDir, now, now) // in use: not a candidate for pruning
		return bin, nil
	}
	tmp := bin + fmt.Sprintf(".tmp%d", os.Getpid())
	args := []string{"test", "-c", "-tags", "verif", "-vet=off", "-overlay", g.Overlay, "-modfile", g.Modfile, "-o", tmp, "./" + harnessDirOf[pkg]}
	cmd := exec.Command(goBin(), args...)
	cmd.Dir = repo
	cmd.Env = baseEnv()
	out, err := cmd.CombinedOutput()
	if err != nil {
		os.Remove(tmp)
		return "", fmt.Errorf("%v\n%s", err, out)
	}
	if err := os.Rename(tmp, bin); err != nil {
		return "", err
	}
	pruneBuilds(filepath.Join(verifDir, ".build"), g.Hash)
	return bin, nil
}

// pruneBuilds keeps the build cache directory small (disk is limited).
func pruneBuilds(dir, keep string) {
	ents, err := os.ReadDir(dir)
	if err != nil {
		return
	}
	type e struct {
		name string
		t    time.Time
	}
	var es []e
	for _, x := range ents {
		if !x.IsDir() || x.Name() == keep || x.Name() == "pam" || strings.HasPrefix(x.Name(), "scratch-") {
			continue
		}
		fi, err := x.Info()
		if err != nil {
			continue
		}
		// checks may run side by side (several properties at once, or the seeded-change evaluation
		// next to a check of the unchanged tree): the scratch directory of a run in progress and a
		// build directory another process has just produced are never pruned; what a killed run
		// left behind goes after six hours
		if strings.HasPrefix(x.Name(), "run-") || strings.HasPrefix(x.Name(), "det-") {
			if time.Since(fi.ModTime()) > 6*time.Hour {
				os.RemoveAll(filepath.Join(dir, x.Name()))
			}
			continue
		}
		if time.Since(fi.ModTime()) < 45*time.Minute {
			continue
		}
		es = append(es, e{x.Name(), fi.ModTime()})
	}
	sort.Slice(es, func(i, j int) bool { return es[i].t.After(es[j].t) })
	for i, x := range es {
		if i >= 3 {
			os.RemoveAll(filepath.Join(dir, x.name))
		}
	}
}

func check(verifDir, repo, id, tier, replay string) int {
	start := time.Now()
	meta, ok := propMeta[id]
	if !ok {
		die2("unknown property %s", id)
	}
	seed := uint64(1)
	if s := os.Getenv("VERIF_SEED"); s != "" {
		if v, err := strconv.ParseUint(s, 10, 64); err == nil {
			seed = v
		}
	}
	var bin string
	var genInfo *genResult
	bins := map[string]string{}
	pkgs := append([]string{meta.Pkg}, meta.Also...)
	if meta.Pkg == "pam" {
		b, err := buildPam(verifDir, repo)
		if err != nil {
			die2("build pamsim: %v", err)
		}
		bin = b
		bins["pam"] = b
	} else {
		g, err := simgen(verifDir, repo, baseEnv())
		if err != nil {
			die2("simgen: %v", err)
		}
		genInfo = g
		for _, pk := range pkgs {
			b, err := buildHarness(verifDir, repo, g, pk)
			if err != nil {
				die2("build: %v", err)
			}
			bins[pk] = b
		}
		bin = bins[meta.Pkg]
	}
	pkgOf := func(k int) string { return pkgs[k%len(pkgs)] }
	if meta.Pkg == "sasl" {
		// C05 / C13 feed server replies and requests to the compiled PAM module
		if b, err := buildPam(verifDir, repo); err == nil {
			pamsimBin = b
		} else {
			die2("build pamsim: %v", err)
		}
	}
	findings := loadFindings(verifDir)
	var knownSigs []string
	for _, f := range findings {
		if f.Status == "known" {
			knownSigs = append(knownSigs, f.Signature)
		}
	}
	scratch, err := os.MkdirTemp(filepath.Join(verifDir, ".build"), "run-"+id+"-")
	if err != nil {
		die2("scratch: %v", err)
	}
	defer os.RemoveAll(scratch)

	if replay != "" {
		replay, _ = filepath.Abs(replay)
		if rb, err := os.ReadFile(replay); err == nil {
			var rf replayFile
			if json.Unmarshal(rb, &rf) == nil && bins[rf.Pkg] != "" {
				bin = bins[rf.Pkg]
			}
		}
		return doReplay(bin, scratch, id, replay, knownSigs, meta)
	}

	nworkers := runtime.NumCPU()
	if s := os.Getenv("VERIF_WORKERS"); s != "" {
		if v, err := strconv.Atoi(s); err == nil && v > 0 {
			nworkers = v
		}
	}
	budget := meta.QuickBudgetS
	maxRuns := meta.QuickRuns
	if tier == "thorough" {
		budget = 600
		if s := os.Getenv("VERIF_BUDGET_S"); s != "" {
			if v, err := strconv.Atoi(s); err == nil && v > 0 {
				budget = v
			}
		}
		maxRuns = 1 << 30
	}
	if s := os.Getenv("VERIF_RUNS"); s != "" {
		if v, err := strconv.Atoi(s); err == nil && v > 0 {
			maxRuns = v
		}
	}
	type wres struct {
		lines   []resultLine
		crashed bool
		hung    bool
		output  string
		cur     string
	}
	results := make([]wres, nworkers)
	stall := 180 * time.Second
	if v, err := strconv.Atoi(os.Getenv("VERIF_STALL_S")); err == nil && v > 0 {
		stall = time.Duration(v) * time.Second
	}
	var wg sync.WaitGroup
	for k := 0; k < nworkers; k++ {
		wg.Add(1)
		go func(k int) {
			defer wg.Done()
			out := filepath.Join(scratch, fmt.Sprintf("w%d.jsonl", k))
			cur := filepath.Join(scratch, fmt.Sprintf("w%d.cur", k))
			wd := filepath.Join(scratch, fmt.Sprintf("wd%d", k))
			os.MkdirAll(wd, 0o755)
			cmd := workerCmd(bins[pkgOf(k)], meta, wd)
			cmd.Env = append(baseEnv(),
				"VERIF_PROP="+id, "VERIF_TIER="+tier, fmt.Sprintf("VERIF_BASE=%d", seed),
				fmt.Sprintf("VERIF_FROM=%d", k), fmt.Sprintf("VERIF_TO=%d", maxRuns), fmt.Sprintf("VERIF_STRIDE=%d", nworkers),
				fmt.Sprintf("VERIF_BUDGET_MS=%d", budget*1000), "VERIF_OUT="+out, "VERIF_CUR="+cur,
				"VERIF_KNOWN="+strings.Join(knownSigs, ","), "GOMAXPROCS=2", "VERIF_REPO_DIR="+repo, "VERIF_DIR="+verifDir, "VERIF_PAMSIM="+pamsimBin)
			var ob bytes.Buffer
			cmd.Stdout, cmd.Stderr = &ob, &ob
			// watchdog: a worker whose current run does not change for `stall` is hung (a
			// deadlock the simulator cannot see, e.g. a lock it does not own); it gets SIGQUIT
			// for a goroutine dump and the check ends with exit 2 - never a VIOLATION
			err := cmd.Start()
			if err == nil {
				done := make(chan error, 1)
				go func() { done <- cmd.Wait() }()
				tick := time.NewTicker(5 * time.Second)
				lastCur, lastChange := "", time.Now()
			wait:
				for {
					select {
					case err = <-done:
						break wait
					case <-tick.C:
						b, _ := os.ReadFile(cur)
						if string(b) != lastCur {
							lastCur, lastChange = string(b), time.Now()
						} else if time.Since(lastChange) > stall {
							results[k].hung = true
							cmd.Process.Signal(syscall.SIGQUIT)
							select {
							case err = <-done:
							case <-time.After(10 * time.Second):
								cmd.Process.Kill()
								err = <-done
							}
							break wait
						}
					}
				}
				tick.Stop()
			}
			results[k].lines = readLines(out)
			results[k].output = ob.String()
			hasStats := false
			for _, l := range results[k].lines {
				if l.Type == "stats" {
					hasStats = true
				}
			}
			if err != nil || !hasStats {
				results[k].crashed = true
				b, _ := os.ReadFile(cur)
				results[k].cur = strings.TrimSpace(string(b))
			}
		}(k)
	}
	wg.Wait()

	agg := resultLine{Stats: map[string]int{}, Known: map[string]string{}}
	distinct := map[uint64]bool{}
	var viols []resultLine
	var foreign []json.RawMessage
	cannot := []string{}
	for k, wr := range results {
		for _, l := range wr.lines {
			switch l.Type {
			case "stats":
				agg.Runs += l.Runs
				agg.Steps += l.Steps
				agg.SimTimeNs += l.SimTimeNs
				for s, v := range l.Stats {
					agg.Stats[s] += v
				}
				for _, d := range l.Distinct {
					distinct[d] = true
				}
				for s, v := range l.Known {
					if _, ok := agg.Known[s]; !ok {
						agg.Known[s] = v
					}
				}
				if len(agg.Samples) < 3 {
					agg.Samples = append(agg.Samples, l.Samples...)
				}
				if len(l.Foreign) > 0 && len(foreign) < 4 {
					foreign = append(foreign, l.Foreign)
				}
			case "violation":
				l.Tier = pkgOf(k) // carried to the replay file: which harness binary produced it
				viols = append(viols, l)
			case "error":
				cannot = append(cannot, l.Msg)
			}
		}
		if wr.hung {
			tail := wr.output
			if i := strings.Index(tail, "SIGQUIT"); i >= 0 {
				tail = tail[i:]
			}
			if len(tail) > 5000 {
				tail = tail[:5000] + "\n..."
			}
			cannot = append(cannot, fmt.Sprintf("worker %d made no progress for %v in run (idx seed) = %s and was stopped: the simulation hung, which the simulator cannot judge\n%s", k, stall, wr.cur, tail))
			continue
		}
		if wr.crashed {
			// a worker died: a panic in a goroutine of the code under test kills the process
			tail := wr.output
			if len(tail) > 6000 {
				tail = tail[:3000] + "\n...\n" + tail[len(tail)-3000:]
			}
			for _, l := range wr.lines {
				if l.Type == "error" {
					tail += "\nworker error line: " + l.Msg
				}
			}
			if wr.cur == "" {
				cannot = append(cannot, fmt.Sprintf("worker %d died before its first run:\n%s", k, tail))
				continue
			}
			f := strings.Fields(wr.cur)
			idx, _ := strconv.Atoi(f[0])
			rs, _ := strconv.ParseUint(f[1], 10, 64)
			sig := crashSignature(wr.output, repo)
			if sig == "" {
				cannot = append(cannot, fmt.Sprintf("worker %d died in run idx=%d seed=%d outside the code under test:\n%s", k, idx, rs, tail))
				continue
			}
			viols = append(viols, resultLine{Type: "violation", Prop: id, Sig: sig, Seed: rs, Idx: idx, Tier: pkgOf(k),
				Msg: "the process crashed (unrecovered panic in a goroutine of the code under test):\n" + tail, Log: []string{"(process-level crash: seed-only replay)"}, LogHash: "crash"})
		}
	}

	// Isolation phase. Many simulated processes share one OS process, so package-level state
	// of a changed tree (a semaphore that leaks, a map of operations in flight) survives from
	// one run into the next; when that made workers hang or die on a channel of an earlier
	// run, the verdict so far says nothing about the code. The same run indices are then
	// executed with ONE OS PROCESS PER RUN (slower, hence only now and only a bounded number),
	// which is what a restart between runs really looks like.
	isoNeeded := false
	for _, wr := range results {
		if wr.hung || (wr.crashed && strings.Contains(wr.output, "from outside bubble")) {
			isoNeeded = true
		}
	}
	isoRan := false
	runIsolation := func() {
		isoRan = true
		isoRuns := 150
		if v, err := strconv.Atoi(os.Getenv("VERIF_ISO_RUNS")); err == nil && v > 0 {
			isoRuns = v
		}
		var mu sync.Mutex
		isoDone, isoHung := 0, 0
		var iwg sync.WaitGroup
		for k := 0; k < nworkers; k++ {
			iwg.Add(1)
			go func(k int) {
				defer iwg.Done()
				for j := 0; j < isoRuns; j++ {
					mu.Lock()
					stop := len(viols) > 0
					mu.Unlock()
					if stop {
						return
					}
					idx := k + j*nworkers
					out := filepath.Join(scratch, fmt.Sprintf("iso%d.jsonl", k))
					cur := filepath.Join(scratch, fmt.Sprintf("iso%d.cur", k))
					os.Remove(out)
					wd := filepath.Join(scratch, fmt.Sprintf("wd%d", k))
					cmd := workerCmd(bins[pkgOf(k)], meta, wd)
					cmd.Env = append(baseEnv(),
						"VERIF_PROP="+id, "VERIF_TIER="+tier, fmt.Sprintf("VERIF_BASE=%d", seed),
						fmt.Sprintf("VERIF_FROM=%d", idx), fmt.Sprintf("VERIF_TO=%d", idx+1), "VERIF_STRIDE=1",
						"VERIF_BUDGET_MS=600000", "VERIF_OUT="+out, "VERIF_CUR="+cur, "VERIF_NOMIN=1", "VERIF_ISOLATED=1",
						"VERIF_KNOWN="+strings.Join(knownSigs, ","), "GOMAXPROCS=2", "VERIF_REPO_DIR="+repo, "VERIF_DIR="+verifDir, "VERIF_PAMSIM="+pamsimBin)
					var ob bytes.Buffer
					cmd.Stdout, cmd.Stderr = &ob, &ob
					if cmd.Start() != nil {
						return
					}
					done := make(chan error, 1)
					go func() { done <- cmd.Wait() }()
					var err error
					hung := false
					select {
					case err = <-done:
					case <-time.After(60 * time.Second):
						hung = true
						cmd.Process.Signal(syscall.SIGQUIT)
						select {
						case <-done:
						case <-time.After(10 * time.Second):
							cmd.Process.Kill()
							<-done
						}
					}
					lines := readLines(out)
					mu.Lock()
					isoDone++
					if hung {
						isoHung++
					}
					for _, l := range lines {
						if l.Type == "violation" {
							l.Tier = pkgOf(k)
							viols = append(viols, l)
						}
					}
					if hung && meta.Liveness {
						// a single simulated process, alone in its OS process, that never finishes: some
						// goroutine of the code under test blocks in a way the simulator cannot see (a
						// channel or lock created outside the run). For the liveness property that IS
						// the finding; the replay re-runs the seed and expects the hang again.
						if fn := hangSite(ob.String(), repo); fn != "" {
							b, _ := os.ReadFile(cur)
							f := strings.Fields(strings.TrimSpace(string(b)))
							if len(f) == 2 {
								rs, _ := strconv.ParseUint(f[1], 10, 64)
								viols = append(viols, resultLine{Type: "violation", Prop: id, Sig: "hang/blocked-in-" + fn, Seed: rs, Idx: idx, Tier: pkgOf(k),
									Msg: "run " + f[0] + " never finished (60 s of real time, one OS process for this run alone): a goroutine of the code under test is blocked in " + fn + " on something outside the simulator's view",
									Log: []string{"(hang: seed-only replay)"}, LogHash: "hang"})
							}
						}
					}
					if !hung && err != nil {
						if sig := crashSignature(ob.String(), repo); sig != "" {
							b, _ := os.ReadFile(cur)
							f := strings.Fields(strings.TrimSpace(string(b)))
							if len(f) == 2 {
								rs, _ := strconv.ParseUint(f[1], 10, 64)
								tail := ob.String()
								if len(tail) > 4000 {
									tail = tail[:2000] + "\n...\n" + tail[len(tail)-2000:]
								}
								viols = append(viols, resultLine{Type: "violation", Prop: id, Sig: sig, Seed: rs, Idx: idx, Tier: pkgOf(k),
									Msg: "the process crashed (unrecovered panic in a goroutine of the code under test):\n" + tail, Log: []string{"(process-level crash: seed-only replay)"}, LogHash: "crash"})
							}
						}
					}
					mu.Unlock()
				}
			}(k)
		}
		iwg.Wait()
		agg.Stats["isolation-phase-runs"] = isoDone
		fmt.Printf("isolation phase: %d runs with one OS process each (%d of them hung), %d violation(s)\n", isoDone, isoHung, len(viols))
		if len(viols) > 0 {
			// the hang / crash of the shared workers is explained; what isolation found is the verdict
			cannot = nil
		}
	}
	if isoNeeded && len(viols) == 0 && meta.Pkg != "pam" {
		runIsolation()
	}

	seen := map[string]bool{}
	exit := 0
	nviol := 0
	replayDir := filepath.Join(verifDir, "replays")
	if repo != "/repo" {
		// self-test against a scratch tree: keep its replay and evidence files apart
		replayDir = filepath.Join(verifDir, ".build", "scratch-replays")
	}
	os.MkdirAll(replayDir, 0o755)
	var reported []map[string]any
	unreproduced := 0
	confirmAll := func() {
		// dedupe violations by signature, confirm each by replay in a fresh process
		sort.Slice(viols, func(i, j int) bool {
			if viols[i].Sig != viols[j].Sig {
				return viols[i].Sig < viols[j].Sig
			}
			return len(viols[i].Tape) < len(viols[j].Tape)
		})
		for _, v := range viols {
			if seen[v.Sig] {
				continue
			}
			seen[v.Sig] = true
			if strings.HasPrefix(v.Sig, "harness/") {
				cannot = append(cannot, v.Sig+": "+v.Msg)
				continue
			}
			h := sha256.Sum256([]byte(v.Sig))
			rp := filepath.Join(replayDir, fmt.Sprintf("%s-%s-%d.json", id, hex.EncodeToString(h[:4]), v.Seed))
			rf := replayFile{Prop: id, Sig: v.Sig, Msg: v.Msg, Seed: v.Seed, Tier: tier, Tape: v.Tape, Decisions: v.Decisions, Log: v.Log, LogHash: v.LogHash, OrigLen: v.OrigLen, Pkg: v.Tier, SeedOnly: v.LogHash == "crash" || v.LogHash == "hang"}
			b, _ := json.MarshalIndent(rf, "", " ")
			os.WriteFile(rp, b, 0o644)
			if v.LogHash == "hang" {
				// confirmation: the same seed, alone in a fresh process, hangs again at the same place
				if fn := replayHang(bins[v.Tier], scratch, id, rp, meta, repo); "hang/blocked-in-"+fn != v.Sig {
					cannot = append(cannot, fmt.Sprintf("replay of %s did not hang again (got %q)", rp, fn))
					continue
				}
			} else if v.LogHash != "crash" {
				// fresh-process confirmation
				rl, out, err := runReplay(bins[v.Tier], scratch, id, rp, knownSigs, meta)
				if err != nil || rl == nil {
					cannot = append(cannot, fmt.Sprintf("replay of %s could not run: %v\n%s", rp, err, out))
					continue
				}
				if rl.Sig == v.Sig && rl.LogHash != v.LogHash {
					// same violation, other event log: the worker's log was taken in a process that had
					// executed this run before (state of the changed tree outside the simulator). The
					// fresh process is the reference: its log goes into the replay file, and a second
					// fresh process has to reproduce that one exactly.
					rf.LogHash = rl.LogHash
					if len(rl.Log) > 0 {
						rf.Log = rl.Log
					}
					b, _ := json.MarshalIndent(rf, "", " ")
					os.WriteFile(rp, b, 0o644)
					if rl2, _, err2 := runReplay(bins[v.Tier], scratch, id, rp, knownSigs, meta); err2 == nil && rl2 != nil && rl2.Sig == rl.Sig && rl2.LogHash == rl.LogHash {
						v.LogHash = rl.LogHash
					}
				}
				if rl.Sig != v.Sig || rl.LogHash != v.LogHash {
					cannot = append(cannot, fmt.Sprintf("replay of %s did not reproduce (got sig=%q hash=%s, want sig=%q hash=%s): harness nondeterminism", rp, rl.Sig, rl.LogHash, v.Sig, v.LogHash))
					unreproduced++
					continue
				}
			}
			nviol++
			exit = 1
			fmt.Printf("VIOLATION property=%s replay=%s\n", id, rp)
			fmt.Printf("  signature: %s\n  seed: %d  minimised tape: %d decisions (from %d)\n  %s\n", v.Sig, v.Seed, len(v.Tape), v.OrigLen, firstLines(v.Msg, 12))
			reported = append(reported, map[string]any{"signature": v.Sig, "seed": v.Seed, "replay": rp})
		}
	}
	confirmAll()
	if unreproduced > 0 && nviol == 0 && !isoRan && meta.Pkg != "pam" {
		// what the shared workers found did not reproduce in a fresh process: typically state of the
		// changed tree that had built up over earlier runs of that worker. One process per run decides.
		viols = nil
		seen = map[string]bool{}
		runIsolation()
		if len(viols) > 0 {
			cannot = nil
		}
		confirmAll()
	}

	// known findings of this property
	var knownOut []map[string]any
	for _, f := range findings {
		if f.Property != id || f.Status != "known" {
			continue
		}
		hit, ok := agg.Known[f.Signature]
		extra := "(not reached in this run)"
		if ok {
			extra = "(reproduced: " + firstLines(hit, 2) + ")"
		}
		fmt.Printf("KNOWN-FINDING: property=%s %s [%s] %s\n", id, f.What, f.Signature, extra)
		knownOut = append(knownOut, map[string]any{"signature": f.Signature, "what": f.What, "reproduced": ok})
	}
	if len(cannot) > 0 {
		for _, c := range cannot {
			fmt.Fprintf(os.Stderr, "CANNOT-DECIDE: %s\n", c)
		}
		if exit == 0 {
			exit = 2
		}
	}
	if agg.Runs == 0 && exit == 0 {
		fmt.Fprintln(os.Stderr, "CANNOT-DECIDE: no run completed")
		for _, wr := range results {
			if wr.output != "" {
				fmt.Fprintln(os.Stderr, firstLines(wr.output, 40))
				break
			}
		}
		exit = 2
	}

	wall := time.Since(start).Seconds()
	if strings.HasPrefix(id, "X-") {
		// self-tests write no evidence file
	} else if repo != "/repo" {
		verifDirE := filepath.Join(verifDir, ".build", "scratch-evidence")
		os.MkdirAll(verifDirE, 0o755)
		writeEvidence(verifDirE, id, tier, seed, meta, agg, len(distinct), nviol, reported, knownOut, foreign, wall, nworkers, genInfo, exit)
	} else {
		writeEvidence(verifDir, id, tier, seed, meta, agg, len(distinct), nviol, reported, knownOut, foreign, wall, nworkers, genInfo, exit)
	}
	if false {
		writeEvidence(verifDir, id, tier, seed, meta, agg, len(distinct), nviol, reported, knownOut, foreign, wall, nworkers, genInfo, exit)
	}
	fmt.Printf("%s %s: runs=%d steps=%d distinct_nontrivial=%d violations=%d wall=%.1fs exit=%d\n", id, tier, agg.Runs, agg.Steps, len(distinct), nviol, wall, exit)
	return exit
}

func firstLines(s string, n int) string {
	l := strings.Split(s, "\n")
	if len(l) > n {
		l = append(l[:n], "...")
	}
	return strings.Join(l, "\n  ")
}

// crashSignature classifies a process-level crash by the first frame inside the code
// under test (file paths map to the repo through //line directives).
func crashSignature(out, repo string) string {
	if strings.Contains(out, "AddressSanitizer") {
		return "sanitizer/address"
	}
	if strings.Contains(out, "runtime error:") && strings.Contains(out, "pam_whawty.c") {
		return "sanitizer/undefined-behaviour"
	}
	if !strings.Contains(out, "panic:") && !strings.Contains(out, "fatal error:") {
		return ""
	}
	if strings.Contains(out, "synctest channel from outside bubble") || strings.Contains(out, "synctest timer from outside bubble") {
		// a package-level variable of the (changed) tree carried a channel or timer from one
		// simulated process into the next: in reality a restart resets it. That is a limit of
		// running many simulated processes in one OS process, not a verdict on the code.
		return ""
	}
	lines := strings.Split(out, "\n")
	for i, l := range lines {
		t := strings.TrimSpace(l)
		if strings.HasPrefix(t, repo+"/") && !strings.Contains(t, "/zz_") && !strings.Contains(t, "/zzverif/") && i > 0 {
			fn := strings.TrimSpace(lines[i-1])
			if j := strings.Index(fn, "("); j > 0 {
				fn = fn[:j]
			}
			if j := strings.LastIndex(fn, "/"); j >= 0 {
				fn = fn[j+1:]
			}
			return "process-crash/" + fn
		}
	}
	return ""
}

// hangSite names the function of the code under test in which a goroutine of a hung run is
// blocked (channel operation, select or lock), from a SIGQUIT goroutine dump.
func hangSite(out, repo string) string {
	var found []string
	for _, g := range strings.Split(out, "\n\n") {
		lines := strings.Split(g, "\n")
		if len(lines) < 3 || !strings.HasPrefix(lines[0], "goroutine ") {
			continue
		}
		h := lines[0]
		if !(strings.Contains(h, "[chan send") || strings.Contains(h, "[chan receive") || strings.Contains(h, "[select") || strings.Contains(h, "[sync.") || strings.Contains(h, "[semacquire")) {
			continue
		}
		for i := 1; i+1 < len(lines); i++ {
			t := strings.TrimSpace(lines[i+1])
			if strings.HasPrefix(t, repo+"/") && !strings.Contains(t, "/zz_") && !strings.Contains(t, "/zzverif/") {
				fn := strings.TrimSpace(lines[i])
				if j := strings.LastIndex(fn, "("); j > 0 {
					fn = fn[:j] // the argument list; receivers such as (*store) stay
				}
				if j := strings.LastIndex(fn, "/"); j >= 0 {
					fn = fn[j+1:]
				}
				// only the innermost repo frame counts, and only if nothing of the simulator is below it
				if i == 1 || !strings.Contains(strings.Join(lines[1:i], "\n"), "/zzverif/") {
					found = append(found, fn)
				}
				break
			}
		}
	}
	// the dump order of goroutines varies: the alphabetically first site is the stable name
	sort.Strings(found)
	if len(found) > 0 {
		return found[0]
	}
	return ""
}

// replayHang re-runs the seed of a hang replay file alone in a fresh process and returns the
// hang site ("" if the run finishes within a minute).
func replayHang(bin, scratch, id, rp string, meta propInfo, repo string) string {
	out := filepath.Join(scratch, "replayhang.jsonl")
	cmd := workerCmd(bin, meta, scratch)
	cmd.Env = append(baseEnv(), "VERIF_PROP="+id, "VERIF_REPLAY="+rp, "VERIF_REPLAY_SEARCH=1", "VERIF_OUT="+out, "GOMAXPROCS=2", "VERIF_NOMIN=1")
	var ob bytes.Buffer
	cmd.Stdout, cmd.Stderr = &ob, &ob
	if cmd.Start() != nil {
		return ""
	}
	done := make(chan error, 1)
	go func() { done <- cmd.Wait() }()
	select {
	case <-done:
		return ""
	case <-time.After(60 * time.Second):
		cmd.Process.Signal(syscall.SIGQUIT)
		select {
		case <-done:
		case <-time.After(10 * time.Second):
			cmd.Process.Kill()
			<-done
		}
	}
	return hangSite(ob.String(), repo)
}

func workerCmd(bin string, meta propInfo, wd string) *exec.Cmd {
	var cmd *exec.Cmd
	if meta.Pkg == "pam" {
		cmd = exec.Command(bin)
	} else {
		cmd = exec.Command(bin, "-test.run", "^TestVerif$", "-test.timeout", "0", "-test.count", "1")
	}
	cmd.Dir = wd
	return cmd
}

func readLines(path string) []resultLine {
	f, err := os.Open(path)
	if err != nil {
		return nil
	}
	defer f.Close()
	var out []resultLine
	sc := bufio.NewScanner(f)
	sc.Buffer(make([]byte, 1<<20), 1<<28)
	for sc.Scan() {
		var l resultLine
		if err := json.Unmarshal(sc.Bytes(), &l); err == nil {
			out = append(out, l)
		}
	}
	return out
}

func runReplay(bin, scratch, id, rp string, known []string, meta propInfo) (*resultLine, string, error) {
	out := filepath.Join(scratch, fmt.Sprintf("replay-%d.jsonl", time.Now().UnixNano()))
	wd := filepath.Join(scratch, "wd-replay")
	os.MkdirAll(wd, 0o755)
	cmd := workerCmd(bin, meta, wd)
	cmd.Env = append(baseEnv(), "VERIF_PROP="+id, "VERIF_REPLAY="+rp, "VERIF_OUT="+out, "VERIF_KNOWN="+strings.Join(known, ","), "GOMAXPROCS=2", "VERIF_PAMSIM="+pamsimBin)
	if meta.Pkg == "pam" {
		// the C simulator takes the tape through the environment
		if rb, err := os.ReadFile(rp); err == nil {
			var rf replayFile
			if json.Unmarshal(rb, &rf) == nil {
				var vs []string
				for _, v := range rf.Tape {
					vs = append(vs, strconv.Itoa(v))
				}
				cmd.Env = append(cmd.Env, "VERIF_REPLAY_TAPE="+strings.Join(vs, ","), fmt.Sprintf("VERIF_REPLAY_SEED=%d", rf.Seed), "VERIF_TIER="+rf.Tier)
			}
		}
	}
	b, err := cmd.CombinedOutput()
	for _, l := range readLines(out) {
		if l.Type == "replay" {
			return &l, string(b), nil
		}
		if l.Type == "error" {
			return nil, l.Msg, fmt.Errorf("replay error")
		}
	}
	return nil, string(b), err
}

func doReplay(bin, scratch, id, rp string, known []string, meta propInfo) int {
	b, err := os.ReadFile(rp)
	if err != nil {
		die2("%v", err)
	}
	var rf replayFile
	if err := json.Unmarshal(b, &rf); err != nil {
		die2("%v", err)
	}
	if rf.SeedOnly && strings.HasPrefix(rf.Sig, "hang/") {
		repo := os.Getenv("VERIF_REPO")
		if repo == "" {
			repo = "/repo"
		}
		if fn := replayHang(bin, scratch, id, rp, meta, repo); "hang/blocked-in-"+fn == rf.Sig {
			fmt.Printf("VIOLATION property=%s replay=%s\n  reproduced: %s (the run hangs again)\n", id, rp, rf.Sig)
			return 1
		}
		fmt.Printf("replay of %s did not reproduce the hang\n", rp)
		return 0
	}
	if rf.SeedOnly {
		// process-level crash: re-run that seed in search mode and expect the process to die the same way
		out := filepath.Join(scratch, "replay.jsonl")
		cmd := workerCmd(bin, meta, scratch)
		cmd.Env = append(baseEnv(), "VERIF_PROP="+id, "VERIF_REPLAY="+rp, "VERIF_REPLAY_SEARCH=1", "VERIF_OUT="+out, "GOMAXPROCS=2")
		ob, err := cmd.CombinedOutput()
		repo := os.Getenv("VERIF_REPO")
		if repo == "" {
			repo = "/repo"
		}
		sig := crashSignature(string(ob), repo)
		if err != nil && sig == rf.Sig {
			fmt.Printf("VIOLATION property=%s replay=%s\n  reproduced: %s\n", id, rp, sig)
			return 1
		}
		fmt.Printf("replay of %s did not reproduce (process exit: %v, signature %q)\n", rp, err, sig)
		return 0
	}
	rl, out, err := runReplay(bin, scratch, id, rp, known, meta)
	if err != nil || rl == nil {
		die2("replay could not run: %v\n%s", err, out)
	}
	for _, l := range rl.Log {
		fmt.Println("  | " + l)
	}
	if rl.Sig == rf.Sig && rl.LogHash == rf.LogHash {
		fmt.Printf("VIOLATION property=%s replay=%s\n  reproduced exactly (signature %s, event log %s)\n  %s\n", id, rp, rl.Sig, rl.LogHash, firstLines(rl.Msg, 12))
		return 1
	}
	if rl.Sig == rf.Sig {
		fmt.Printf("VIOLATION property=%s replay=%s\n  same violation, different event log (%s vs %s)\n", id, rp, rl.LogHash, rf.LogHash)
		return 1
	}
	fmt.Printf("replay of %s: violation not reproduced on this tree (got %q, recorded %q)\n", rp, rl.Sig, rf.Sig)
	return 0
}

func writeEvidence(verifDir, id, tier string, seed uint64, meta propInfo, agg resultLine, distinct, nviol int, reported, known []map[string]any,
	foreign []json.RawMessage, wall float64, nworkers int, g *genResult, exit int) {
	faults := map[string]int{}
	probes := map[string]int{}
	counters := map[string]int{}
	for k, v := range agg.Stats {
		switch {
		case strings.HasPrefix(k, "fault:"):
			faults[strings.TrimPrefix(k, "fault:")] = v
		case strings.HasPrefix(k, "probe:"):
			probes[strings.TrimPrefix(k, "probe:")] = v
		default:
			counters[k] = v
		}
	}
	evals := agg.Runs
	if v := agg.Stats["evaluations"]; v > evals {
		evals = v
	}
	samples := agg.Samples
	if len(samples) == 0 {
		samples = []any{"(no run completed)"}
	}
	cov := map[string]any{
		"evaluations":           evals,
		"distinct_nontrivial":   distinct,
		"rule":                  meta.Rule,
		"samples":               samples,
		"simulated_runs":        agg.Runs,
		"runs_per_hour":         int(float64(agg.Runs) / wall * 3600),
		"steps":                 agg.Steps,
		"simulated_time_s":      float64(agg.SimTimeNs) / 1e9,
		"fault_kinds_fired":     faults,
		"reach_probes":          probes,
		"counters":              counters,
		"workers":               nworkers,
		"components_real":       meta.Real,
		"components_stub":       meta.Stub,
		"violations_reported":   reported,
		"known_findings":        known,
		"other_properties_seen": foreign,
		"exit_status":           exit,
		"exhaustive":            false,
	}
	if g != nil {
		cov["select_rewrites"] = g.Selects
		cov["build"] = g.Hash
	}
	for k, v := range probes {
		if v == 0 && tier == "thorough" {
			fmt.Fprintf(os.Stderr, "warning: reach probe %q stayed at zero\n", k)
		}
	}
	if meta.Assumptions == nil {
		meta.Assumptions = []string{}
	}
	ev := map[string]any{
		"property_id": id,
		"tier":        tier,
		"seed":        seed,
		"level":       meta.Level,
		"coverage":    cov,
		"assumptions": meta.Assumptions,
		"wall_s":      wall,
		"violations":  nviol,
	}
	b, _ := json.MarshalIndent(ev, "", " ")
	os.MkdirAll(filepath.Join(verifDir, "evidence"), 0o755)
	os.WriteFile(filepath.Join(verifDir, "evidence", id+".json"), b, 0o644)
}

// determinism is the self-test of DESIGN.md 2.11: for each property the same run indices
// are executed in separate processes at GOMAXPROCS 1, 4 and 16 (the last twice); the
// per-run event-log hashes must be identical. Exit 2 on any difference.
func determinism(verifDir, repo string, ids []string) int {
	if len(ids) == 0 {
		for id := range propMeta {
			ids = append(ids, id)
		}
		sort.Strings(ids)
	}
	nruns := 60
	if s := os.Getenv("VERIF_RUNS"); s != "" {
		if v, err := strconv.Atoi(s); err == nil {
			nruns = v
		}
	}
	g, err := simgen(verifDir, repo, baseEnv())
	if err != nil {
		die2("simgen: %v", err)
	}
	bad := 0
	for _, id := range ids {
		meta := propMeta[id]
		var bin string
		if meta.Pkg == "pam" {
			bin, err = buildPam(verifDir, repo)
		} else {
			bin, err = buildHarness(verifDir, repo, g, meta.Pkg)
		}
		if err != nil {
			die2("build: %v", err)
		}
		pamsim := ""
		if meta.Pkg == "sasl" {
			pamsim, _ = buildPam(verifDir, repo)
		}
		scratch, _ := os.MkdirTemp(filepath.Join(verifDir, ".build"), "det-"+id+"-")
		var ref []byte
		ok := true
		for i, procs := range []string{"1", "4", "16", "16"} {
			hl := filepath.Join(scratch, fmt.Sprintf("h%d", i))
			wd := filepath.Join(scratch, fmt.Sprintf("wd%d", i))
			os.MkdirAll(wd, 0o755)
			cmd := workerCmd(bin, meta, wd)
			cmd.Env = append(baseEnv(), "VERIF_PROP="+id, "VERIF_TIER=quick", "VERIF_BASE=7", "VERIF_FROM=0", fmt.Sprintf("VERIF_TO=%d", nruns), "VERIF_STRIDE=1",
				"VERIF_BUDGET_MS=600000", "VERIF_OUT="+filepath.Join(scratch, "out"), "VERIF_HASHLOG="+hl, "GOMAXPROCS="+procs, "VERIF_NOMIN=1", "VERIF_PAMSIM="+pamsim)
			out, err := cmd.CombinedOutput()
			b, _ := os.ReadFile(hl)
			if len(b) == 0 {
				fmt.Printf("determinism %s: no output at GOMAXPROCS=%s (%v)\n%s\n", id, procs, err, firstLines(string(out), 20))
				ok = false
				break
			}
			if i == 0 {
				ref = b
			} else if string(b) != string(ref) {
				ok = false
				ra, rb := strings.Split(string(ref), "\n"), strings.Split(string(b), "\n")
				for k := range ra {
					if k >= len(rb) || ra[k] != rb[k] {
						fmt.Printf("determinism %s: run differs at GOMAXPROCS=%s vs 1:\n  %s\n  %s\n", id, procs, ra[k], func() string {
							if k < len(rb) {
								return rb[k]
							}
							return "(missing)"
						}())
						break
					}
				}
			}
		}
		os.RemoveAll(scratch)
		if ok {
			fmt.Printf("determinism %s: %d runs x 4 processes (GOMAXPROCS 1/4/16/16) identical\n", id, nruns)
		} else {
			bad++
		}
	}
	if bad > 0 {
		return 2
	}
	return 0
}
