package main

type propInfo struct {
	Pkg          string // store | sasl | agent | pam
	Level        string
	QuickRuns    int
	QuickBudgetS int
	Rule         string
	Real         []string
	Stub         []string
	Assumptions  []string
	LevelText    string
	Note         string
	Technique    string
	DesignRef    string
}

var stubsL = []string{"kernel file system -> simfs (in-memory, explicit durability model)", "wall clock -> testing/synctest fake clock", "OS entropy -> seeded ChaCha8 stream (recorded)"}
var realL = []string{"store (all of it, unmodified; import of os redirected)", "golang.org/x/crypto argon2/scrypt", "gopkg.in/spreadspace/scryptauth.v2", "gopkg.in/yaml.v3"}
var assumeL = []string{"simfs follows POSIX for the operations store uses (differentially tested against the kernel in setup)", "power-loss model: file data durable only after fsync(file); directory entry operations durable only after fsync(dir); rename never loses the file", "go1.26.8 runtime (needed for testing/synctest); module language version stays go 1.23"}

var realA = []string{"cmd/whawty-auth: store.go (dispatcher, upgraders), hooks.go, policy.go, web_api.go handlers + mux, web_session.go, sasl_socket.go, ldap.go (unmodified; imports of os, net, os/exec, os/signal redirected, multi-way selects made scheduler-ordered)", "store, sasl", "glauth LDAP server loop, go-asn1-ber, zxcvbn-go, yaml.v3, x/crypto"}
var stubsA = []string{"goroutine scheduling -> baton scheduler (service loops parked at rewritten selects, clients at gates) + synctest quiescence", "file system -> simfs", "sockets -> simnet (immediate delivery unless the property schedules bytes)", "fork/exec -> simexec", "signals -> simsignal", "clock/timers -> synctest", "net/http server connection handling -> handlers called through the real mux with httptest recorders", "http client transport (remote upgrade) -> simulated round-tripper to another in-bubble agent"}
var assumeA = []string{"under the baton scheduler one action is taken between two quiescent points; a goroutine blocked in a real channel operation is woken by hand-off only", "go1.26.8 runtime; timer semantics of the module's go 1.23 line"}

var propMeta = map[string]propInfo{
	"C01": {Pkg: "store", Level: "exploration", QuickRuns: 4000, QuickBudgetS: 25,
		Rule:  "one evaluation = one seeded history (5-80 ops over 1-4 users, 1-3 parameter sets, 1-2 store instances with different defaults, clock steps) checked step by step against the store model incl. near-miss sweeps after every write; distinct non-trivial = distinct (configuration, history) with >= 2 acknowledged writes",
		Real:  realL, Stub: stubsL, Assumptions: assumeL},
	"X-SIMFS": {Pkg: "store", Level: "exploration", QuickRuns: 3000, QuickBudgetS: 20,
		Rule: "self-test: random operation sequences against a real temporary directory and simfs; results, error classes and trees must agree", Real: []string{"kernel file system (reference)"}, Stub: []string{"simfs"}},
	"C02": {Pkg: "store", Level: "exploration", QuickRuns: 4000, QuickBudgetS: 25,
		Rule:  "one evaluation = one run: a store of reference-written records (any configured set), 2-7 corruptions applied behind the API between operations (36 named operators with a by-construction category: invalid / wrong-digest / still-valid / either), after each the API is driven (authenticate with 4 passwords, list, list-full, add, update, remove, check); distinct non-trivial = distinct (operator, resulting length, parameter set, position) corruptions",
		Real:  realL, Stub: stubsL, Assumptions: assumeL},
	"C03": {Pkg: "store", Level: "exploration", QuickRuns: 4000, QuickBudgetS: 25,
		Rule:  "one evaluation = one run: 4-15 store calls with names outside the grammar (path separators, '..', absolute, NUL, over-long, aliases of a valid user) on a tree with a sibling store, decoys and a sub-directory; whole-tree snapshots before/after, the simfs path log checked against <base>/<name>.{user,admin} and <base>/.tmp/*; plus invalid-named .admin files vs list/check; distinct non-trivial = distinct (operation, name) pairs",
		Real:  realL, Stub: stubsL, Assumptions: assumeL},
	"C16": {Pkg: "store", Level: "exploration", QuickRuns: 6000, QuickBudgetS: 25,
		Rule:  "one evaluation = one run: either a generated directory (0-5 entries of every kind, .tmp absent/dir/with residue, unreadable) judged by Check under 3 permuted directory orders and by Init against the reference predicate, or a 5-30 step history from a valid store with check / work-area / one-file-per-user invariants after every call; distinct non-trivial = distinct directory contents or histories",
		Real:  realL, Stub: stubsL, Assumptions: assumeL},
	"C05": {Pkg: "sasl", Level: "exploration", QuickRuns: 6000, QuickBudgetS: 25,
		Rule:  "one evaluation = one run: real sasl.Server on simnet with 1-6 concurrent raw client connections; each connection's byte stream (valid, at the limits, truncated, over-long, trailing bytes, garbage) is delivered in scheduler-chosen fragments interleaved across connections, with client close at any point, stalls and resets; callback outcome (ok / message of 0..70000 bytes / error) drawn per connection; per-connection oracle after every step; distinct non-trivial = distinct (stream, callback outcome, delivery/close pattern) tuples",
		Real:  []string{"sasl (all of it, unmodified; import of net redirected)", "bufio.Scanner"}, Stub: []string{"unix socket -> simnet (byte delivery, close, reset decided by the scheduler)", "authentication callback -> harness stub with drawn outcome"}, Assumptions: []string{"a client that merely stalls obliges the server to nothing (the code has no read timeout and the property states none)"}},
	"C13": {Pkg: "sasl", Level: "exploration", QuickRuns: 20000, QuickBudgetS: 20,
		Rule:  "one evaluation = one run: a request byte string (field lengths from {0,1,2,7,255,256,257,300,65535}, every truncation of valid messages, arbitrary and mutated bytes) decoded under 3-6 read schedules (all at once, 1-byte reads, random fragments with zero-length reads and data returned with EOF) and compared with the reference decoder; encoder bytes, limits, round trip, re-encoding of the consumed prefix; responses likewise; distinct non-trivial = distinct inputs",
		Real:  []string{"sasl/sasl_encoding.go (unmodified)", "bufio.Scanner"}, Stub: []string{"io.Reader -> scripted reader whose fragmentation is chosen by the tape"}, Assumptions: []string{"format and round-trip clauses are input-determined; the simulator contributes the read schedule"}},
	"C20": {Pkg: "pam", Level: "exploration", QuickRuns: 400000, QuickBudgetS: 20,
		Rule:  "one evaluation = one simulated pam_sm_authenticate call: user/password lengths from {0,1,5,255,256,257,300,4096}, option combinations, PAM stack behaviours, and a scripted agent (14 reply texts x padding up to 65000 x declared-length faults x cut replies, fragmented with delays on both sides of the timeout, reply before/after/never, early close, reset, agent not reading, EPIPE) over a fault-injecting syscall layer (EINTR, short reads/writes, stale and ambient errno); a third of the runs are fault-free; distinct non-trivial = distinct decision vectors of runs in which request bytes were exchanged",
		Real:  []string{"pam/pam_whawty.c compiled unmodified (clang -fsanitize=address,undefined)"}, Stub: []string{"libpam (pam_get_user, pam_get_item, pam_set_item, pam_prompt, pam_vsyslog) -> driver.c", "socket/connect/select/read/write/close -> discrete-event syscall simulator (macro redirection via -include shim.h)", "the agent -> scripted reply bytes with timing"}, Assumptions: []string{"not injected: permanent failure of select(), descriptor numbers >= FD_SETSIZE", "stub PAM headers carry Linux-PAM's constants and the two _pam_macros.h macros the module uses"}},
	"C10": {Pkg: "agent", Level: "exploration", QuickRuns: 3000, QuickBudgetS: 30,
		Rule:  "one evaluation = one simulated agent run: 1-14 clients x 1-5 calls (authenticate / add / update / remove / set-admin / list / check, through the agent interface and the sasl, LDAP, basic-auth and API frontends) against the real dispatcher, hooks loop and upgraders; upgrade mode off/local/remote (master delivering, refusing, stalled, slow, 5xx), hooks fast/failing/hanging/unstartable, dispatcher slowness 1-40 (queues fill to capacity); every arrival order and select choice comes from the tape; after the load a fair drain decides exactly whether every call returned; distinct non-trivial = distinct (sequence of dispatcher/hook-loop picks, mode, client and call counts)",
		Real:  realA, Stub: stubsA, Assumptions: assumeA},
	"C11": {Pkg: "agent", Level: "exploration", QuickRuns: 2500, QuickBudgetS: 40,
		Rule:  "one evaluation = one concurrent history: 2-6 clients, <= 34 calls on 1-3 users (every written password unique), through the agent interface and the sasl / LDAP / basic-auth / API frontends, upgrades off or local, dispatcher slowness 1-15; followed on the idle agent by a sequential read-out (every user x every password of the run, list, check) appended to the same history; invoke/return stamps are scheduler step numbers; porcupine decides linearizability against the sequential store model (Unknown = inconclusive, never reported); distinct non-trivial = distinct pick sequences of histories with >= 1 pair of overlapping calls on one user of which at least one is a write",
		Real:  realA, Stub: stubsA, Assumptions: append([]string{"an internal hash upgrade is invisible to the sequential model (same password, same admin flag)", "porcupine v1.3.0 is the linearizability checker (trusted)"}, assumeA...), Technique: "deterministic simulation (seeded schedules) + porcupine linearizability check of the recorded history"},
	"C12": {Pkg: "agent", Level: "exploration", QuickRuns: 2500, QuickBudgetS: 40,
		Rule:  "one evaluation = one login on an otherwise idle agent: stores mixing reference-written records of 2-3 parameter sets (both algorithms, any default), passwords straddling an optional zxcvbn policy, 3-12 logins per run with right and wrong passwords through all five frontends, upgrade mode off / local / remote (replica + master agent in one bubble; master delivering, refusing, stalled; optional sync back), clock steps between logins; after each login a drain, then byte-exact snapshot diff, simfs mutation counter and reference re-verification of any rewritten record; distinct non-trivial = distinct (mode, frontend, right/wrong, record set, default, policy) cells",
		Real:  realA, Stub: stubsA, Assumptions: append([]string{"zxcvbn-go is the trusted base for the policy verdict"}, assumeA...)},
	"C19": {Pkg: "agent", Level: "exploration", QuickRuns: 3000, QuickBudgetS: 40,
		Rule:  "one evaluation = one agent run with a generated hooks directory (1-5 entries: regular / symlink / directory / fifo, hidden names, ten permission patterns, directory modes incl. world-writable), hook behaviours fast / failing / hanging / unstartable, 1-3 clients issuing successful and failing management calls, clock steps of 1 ns .. 61 s incl. 5 s -/+ 1 ns around the rate-limit timer, optional config rewrite + SIGHUP to another base directory; the simexec start log (step, fake time, argv, env) is judged by the obligation tracker; distinct non-trivial = distinct (pick sequence, directory content, #changes, #rounds)",
		Real:  realA, Stub: stubsA, Assumptions: append([]string{"5 s rate limit and 1 min hook time limit are the documented values (man page)", "symlinks have mode 0777 as on Linux"}, assumeA...)},
	"C18": {Pkg: "agent", Level: "exploration", QuickRuns: 3000, QuickBudgetS: 40,
		Rule:  "one evaluation = one run: (a) 1-3 generated YAML documents (valid document + 0-2 of 30 named mutations: deleted / duplicated / retyped fields, unknown keys at every level, ids 0 / negative / max, bad HMAC keys, cost 0 / 32, argon2id time / threads / length / memory edge values) judged by construction, every parameter set of an accepted document exercised (add + authenticate) under a recovering harness; (b) a running agent with clients in flight whose configuration file is rewritten (valid, invalid, torn prefix, unreadable; target directory valid / no admin / foreign file / missing) and SIGHUPed 1-3 times (1-3 coalescing signals each) at scheduler-chosen steps; after each processed reload the in-package configuration triple must be exactly the old or the new one as the reference predicate demands, then a behavioural probe (record written afterwards, cross-directory login); distinct non-trivial = distinct documents",
		Real:  realA, Stub: stubsA, Assumptions: append([]string{"parameter values that make hashing arbitrarily slow or large are not generated", "duplicate parameter-set ids: the statement is silent, either outcome accepted", "a torn configuration file that happens to be well-formed is a configuration: the agent may switch to exactly what a fresh load of those bytes yields"}, assumeA...)},
	"C08": {Pkg: "store", Level: "fault_enumeration", QuickRuns: 400, QuickBudgetS: 40,
		Rule:  "one evaluation = one crash point: for a generated scenario (store with 1-4 reference-written users, aux data of every shape, one init/add/update) EVERY simfs operation boundary of the call and three prefixes inside every write is a crash point; at each, the process-kill image and the power-loss images (all of them when <= limit, else DFS prefix + sampled) are opened with a fresh store and judged by the recovery oracle; distinct non-trivial = distinct (configuration, operation, population, aux size) scenarios swept",
		Real:  realL, Stub: stubsL, Assumptions: assumeL},
	"C09": {Pkg: "store", Level: "fault_enumeration", QuickRuns: 3000, QuickBudgetS: 30,
		Rule:  "one evaluation = one power-loss image reachable from the state at the return of an acknowledged init/add/update/set-admin/remove (all images when <= limit); each must show the acknowledged change; distinct non-trivial = distinct (configuration, operation, population)",
		Real:  realL, Stub: stubsL, Assumptions: assumeL},
	"C15": {Pkg: "store", Level: "fault_enumeration", QuickRuns: 1500, QuickBudgetS: 30,
		Rule:  "one evaluation = one single-fault execution: for a generated scenario and one mutating call, EVERY simfs operation index of the clean execution x every errno applicable to that operation (ENOSPC, EIO, EACCES, EMFILE) and two short writes per write is injected alone, the directory compared byte-exactly with the pre-state; plus every read-only call with no fault and with a fault at each of its operations (mutation counter must stay 0); distinct non-trivial = distinct (configuration, operation, population, aux size) scenarios swept",
		Real:  realL, Stub: stubsL, Assumptions: assumeL},
	"C14": {Pkg: "store", Level: "exploration", QuickRuns: 4000, QuickBudgetS: 20,
		Rule:  "one evaluation = one seeded sequence of 3-12 writes under a generated YAML configuration; every record parsed and recomputed by the reference implementation, salts matched against the recorded random stream, byte log scanned for marker passwords and HMAC keys; distinct non-trivial = distinct (configuration, password) pairs written",
		Real:  realL, Stub: stubsL, Assumptions: assumeL},
}
