module verif/tools

go 1.23.0
